"""C18 - LIMIT/OFFSET and their dialect emulations return exactly the requested slice.

live        generated ordered queries (total order: the shape's key appended) over 0-30 rows executed on
            SQLite with limit/offset given as int / bindparam / SQL expression / literal_column, through
            limit()+offset(), slice() or reset-then-set; rows == Python slice of the unlimited result.
query       ORM: Query[a:b], [i], [a:b:step], .slice(), .limit().offset(), 2.0 select() through a Session,
            with and without a joined-eager collection (subquery wrapping); entities == list slice,
            IndexError / [] modelled as documented by orm.util._getitem.
emu_mssql   MSSQL < 2012 (dialect._supports_offset_fetch=False): the ROW_NUMBER() wrapper returned by
            MSCompiler.translate_select_structure is executed on SQLite (inner select marked
            _mssql_visit has its own limit/offset nulled, as the MSSQL compiler ignores them there).
emu_oracle  Oracle < 12 (enable_offset_fetch=False): OracleCompiler.translate_select_structure output is
            executed on SQLite after replacing the ROWNUM pseudo-column by ROW_NUMBER() OVER (ORDER BY
            <inline view's ORDER BY>) computed one level down (window functions cannot sit in WHERE).
clause      native syntaxes SQLite cannot run: compile per dialect variant, extract (offset, count, ties,
            percent) from text + parameters with a clause interpreter, compare with the request.
"""
from __future__ import annotations

import re

from hypothesis import strategies as st

from vf.api import Generated, HarnessError, Violation

PROPERTY = "C18"
LEVEL = "exploration"
RULE = (
    "tables a(id,x,y,s) 0-30 rows with many ties/NULLs and b(id,a_id,z) 0-12 rows; shape in simple/where/join/outerjoin/subq/subq_limited/distinct/group/union; "
    "0-2 drawn sort keys with directions + the shape's unique key; limit and offset each in {None,0,1,k,n/4,n/2,3n/4,n-1,n,n+1,>n} as int|bind|expr|literal_column; api limit_offset|offset_limit|slice|reset. "
    "Non-trivial: (offset>0 and limit given) or limit==0 or offset>=row count or DISTINCT/GROUP BY under an emulated wrapper; distinct = canonical JSON of the case"
)
ASSUMPTIONS = [
    "the unlimited ordered result executed by SQLite is the reference order (total by construction)",
    "emulated wrappers (MSSQL<2012, Oracle<12) are compared as multisets: their outermost SELECT carries no ORDER BY, so SQL gives no order guarantee",
    "Oracle ROWNUM is modelled as ROW_NUMBER() over the inline view's ORDER BY (Oracle assigns ROWNUM in the order rows leave the ordered inline view)",
    "MSSQL/Oracle/MySQL/PostgreSQL are never executed; their native clauses are interpreted from compiled text+params using each vendor's documented LIMIT grammar (trusted)",
    "negative limit/offset and chained slice().slice() are outside the documented domain and not generated",
    "slice()/[a:b] on a statement or Query that already has OFFSET n is relative to the offset rows (sql/util._make_slice adds start to the offset); an earlier LIMIT is replaced by the slice length, "
    "so with an earlier LIMIT only slices lying inside it (stop <= limit, open-ended only from 0) are generated, where that rule and Python-list composition agree - the docs are silent beyond that",
    "Oracle emulation tier restricts ORDER BY keys to selected columns (needed to re-express the inline view's order one level up)",
]

SHAPES = ["simple", "where", "join", "outerjoin", "subq", "subq_limited", "distinct", "group", "union"]

# ---------------------------------------------------------------------------------------
# strategies
# ---------------------------------------------------------------------------------------
_small = st.one_of(st.none(), st.integers(0, 3))
_row_a = st.tuples(_small, st.integers(0, 2), st.sampled_from(["p", "q", "r", ""])).map(list)
rows_a = st.one_of(st.lists(_row_a, min_size=6, max_size=30), st.lists(_row_a, max_size=4), st.lists(_row_a, min_size=12, max_size=30))
rows_b = st.lists(st.tuples(st.integers(0, 30), st.one_of(st.none(), st.integers(0, 2))).map(list), max_size=12)

AS_KINDS = ["int", "bind", "expr", "litcol", "int"]


_LIMIT_TEMPLATES = ["k", "frac", "zero", "one", "big", "rel", "none", "k", "frac", "rel", "none"]
_OFFSET_TEMPLATES = ["k", "frac", "one", "rel", "big", "k", "frac", "zero", "none", "k", "frac", "rel"]


@st.composite
def _lo_spec(draw, offset=False):
    t = draw(st.sampled_from(_OFFSET_TEMPLATES if offset else _LIMIT_TEMPLATES))
    if t == "none":
        return None
    if t == "k":
        v = draw(st.integers(1, 12))
    elif t == "frac":
        v = ["f", draw(st.integers(1, 3))]
    elif t == "zero":
        v = 0
    elif t == "one":
        v = 1
    elif t == "big":
        v = draw(st.integers(31, 60))
    else:
        v = ["n", draw(st.sampled_from([-1, 0, 1, -2]))]
    return {"v": v, "as": draw(st.sampled_from(AS_KINDS)), "split": draw(st.integers(0, 5))}


def base_cases(shapes=SHAPES, apis=("limit_offset", "offset_limit", "slice", "reset", "pre_slice"), rows=True):
    return st.fixed_dictionaries(
        {
            "a": rows_a if rows else st.just([]),
            "b": rows_b if rows else st.just([]),
            "shape": st.sampled_from(shapes),
            "keys": st.lists(st.tuples(st.integers(0, 3), st.booleans()).map(list), max_size=2),
            "pk_desc": st.booleans(),
            "k": st.integers(0, 3),
            "limit": _lo_spec(),
            "offset": _lo_spec(True),
            "api": st.sampled_from(list(apis)),
            # pre_slice: slice(start, start+len) applied to a statement that already carries OFFSET (and maybe LIMIT); start is 0 half of the time
            "sl": st.tuples(st.sampled_from([0, 1, 0, 3, 0, 2]), st.integers(0, 8), st.booleans()).map(list),
            # history: 0-2 points of the limit/offset/slice derivation chain at which the intermediate statement is compiled on a drawn dialect
            "cp": st.lists(st.tuples(st.integers(0, 4), st.integers(0, 7)).map(list), max_size=2),
            "reorder": st.booleans(),
        }
    )


# ---------------------------------------------------------------------------------------
# schema, data, query shapes
# ---------------------------------------------------------------------------------------
class World:
    def __init__(self, case, engine=True):
        import sqlalchemy as sa
        from vf.sautil import mem_engine

        self.sa = sa
        self.md = sa.MetaData()
        self.a = sa.Table("a", self.md, sa.Column("id", sa.Integer, primary_key=True), sa.Column("x", sa.Integer), sa.Column("y", sa.Integer), sa.Column("s", sa.String))
        self.b = sa.Table("b", self.md, sa.Column("id", sa.Integer, primary_key=True), sa.Column("a_id", sa.Integer), sa.Column("z", sa.Integer))
        self.eng = None
        if engine:
            self.eng = mem_engine()
            self.md.create_all(self.eng)
            na = len(case["a"])
            with self.eng.begin() as conn:
                if case["a"]:
                    conn.execute(self.a.insert(), [{"id": i + 1, "x": r[0], "y": r[1], "s": r[2]} for i, r in enumerate(case["a"])])
                if case["b"]:
                    conn.execute(self.b.insert(), [{"id": i + 1, "a_id": (r[0] % (na + 1)) or None, "z": r[1]} for i, r in enumerate(case["b"])])

    def close(self):
        if self.eng is not None:
            self.eng.dispose()

    def build(self, case, keys_in_columns=False):
        """unlimited, totally ordered statement for the case -> (stmt, flags)"""
        sa, a, b = self.sa, self.a, self.b
        shape, k = case["shape"], case["k"]
        flags = set()
        if shape in ("simple", "where"):
            stmt = sa.select(a.c.id, a.c.x, a.c.y, a.c.s)
            if shape == "where":
                stmt = stmt.where(sa.or_(a.c.x >= k - 1, a.c.x.is_(None)))
            cands, uniq = [a.c.x, a.c.y, a.c.s, a.c.y], [a.c.id]
        elif shape in ("join", "outerjoin"):
            stmt = sa.select(a.c.id, a.c.x, b.c.id.label("bid"), b.c.z, a.c.s).join_from(a, b, b.c.a_id == a.c.id, isouter=shape == "outerjoin")
            cands, uniq = [a.c.x, b.c.z, a.c.s, b.c.z], [a.c.id, b.c.id]
        elif shape in ("subq", "subq_limited"):
            inner = sa.select(a.c.id, a.c.x, a.c.y, a.c.s).where(a.c.y <= max(k, 1))
            if shape == "subq_limited":
                inner = inner.order_by(a.c.id.desc()).limit(5 + k).offset(k)
            sq = inner.subquery("sq")
            stmt = sa.select(sq.c.id, sq.c.x, sq.c.y, sq.c.s)
            cands, uniq = [sq.c.x, sq.c.y, sq.c.s, sq.c.y], [sq.c.id]
        elif shape == "distinct":
            stmt = sa.select(a.c.x, a.c.y).distinct()
            flags.add("distinct")
            # the order must be total over the DISTINCT rows: all selected columns, drawn directions
            d0 = bool(case["keys"][0][1]) if case["keys"] else False
            d1 = bool(case["keys"][1][1]) if len(case["keys"]) > 1 else False
            order = [a.c.x.desc() if d0 else a.c.x, a.c.y.desc() if d1 else a.c.y]
            if case["pk_desc"]:
                order.reverse()
            return stmt.order_by(*order), flags
        elif shape == "group":
            n = sa.func.count(a.c.id).label("n")
            stmt = sa.select(a.c.x, n, sa.func.max(a.c.y).label("my")).group_by(a.c.x)
            flags.add("group")
            cands, uniq = [n, n, n, n], [a.c.x]
        elif shape == "union":
            s1 = sa.select(a.c.id, a.c.x, a.c.s).where(a.c.y < k)
            s2 = sa.select(a.c.id, a.c.x, a.c.s).where(a.c.y >= k)
            stmt = sa.union_all(s1, s2)
            flags.add("compound")
            sc = stmt.selected_columns
            cands, uniq = [sc.x, sc.s, sc.x, sc.s], [sc.id]
        else:
            raise HarnessError(shape)
        order = []
        seen = set()
        for idx, desc in case["keys"]:
            c = cands[idx % len(cands)]
            if id(c) in seen:
                continue
            seen.add(id(c))
            order.append(c.desc() if desc else c)
        for u in uniq:
            order.append(u.desc() if case["pk_desc"] else u)
        return stmt.order_by(*order), flags


def resolve(spec, n):
    """requested integer value of a limit/offset spec (n = size of the unlimited result)"""
    if spec is None:
        return None
    v = spec["v"]
    if isinstance(v, list):
        if v[0] == "f":  # a quarter / half / three quarters of the result size
            return max(1, n * v[1] // 4)
        return max(0, n + v[1])
    return v


def clause_for(sa, spec, val, name, params, embed=False):
    """SQL-side form of the limit/offset value"""
    how = spec["as"]
    if how == "int":
        return val
    if how == "bind":
        params[name] = val
        if embed:  # compile-only tiers: render_postcompile needs a value at compile time
            return sa.bindparam(name, value=val, type_=sa.Integer)
        return sa.bindparam(name, type_=sa.Integer)
    if how == "expr":
        part = min(spec["split"], val)
        return sa.literal(part, sa.Integer) + sa.literal(val - part, sa.Integer)
    if how == "litcol":
        return sa.literal_column(str(val), sa.Integer)
    raise HarnessError(how)


def _run_chain(stmt, steps, case):
    """apply the builder steps one by one; at the drawn points (0-2 per chain) the *intermediate* statement is compiled on a drawn
    dialect variant first (history: a statement derived from an already compiled ancestor must not inherit anything from that
    compilation), optionally re-applying the ORDER BY as one more derivation"""
    from sqlalchemy import exc

    cps = {}
    for pos, var in case.get("cp", []):
        cps.setdefault(pos % (len(steps) + 1), []).append(VARIANTS[var % len(VARIANTS)])

    def compile_here(i, st_):
        for v in cps.get(i, ()):
            try:
                st_.compile(dialect=_variant_dialect(v))
            except exc.SQLAlchemyError:
                pass  # e.g. MSSQL<2012 OFFSET without ORDER BY yet, PERCENT with OFFSET: documented errors of the intermediate

    compile_here(0, stmt)
    for i, step in enumerate(steps):
        stmt = step(stmt)
        compile_here(i + 1, stmt)
    if case.get("cp") and case.get("reorder"):
        ob = tuple(stmt._order_by_clauses)
        stmt = stmt.order_by(None).order_by(*ob)
    return stmt


def apply_limit(sa, stmt, case, n, params, embed=False):
    """returns (limited statement, offset int, limit int|None)"""
    lim, off = resolve(case["limit"], n), resolve(case["offset"], n)
    api = case["api"]
    if api == "pre_slice":
        # statement already limited/offset (offset in any of the drawn forms), then slice(a, b): the slice is relative to the existing
        # OFFSET (sql/util._make_slice adds start to it) and its length replaces the limit.  An earlier LIMIT is only generated when the
        # slice lies within it (stop <= limit), where "replace" and Python-list composition agree; nothing else is documented.
        a, length, with_limit = case.get("sl", [0, 3, False])
        b = a + length
        pre_off = off
        pre_lim = lim if with_limit else None
        if pre_lim is not None:
            b = min(b, pre_lim)
            a = min(a, b)
        steps = []
        if pre_lim is not None:
            plc = clause_for(sa, case["limit"], pre_lim, "lim_p", params, embed)
            steps.append(lambda s_: s_.limit(plc))
        if pre_off is not None:
            poc = clause_for(sa, case["offset"], pre_off, "off_p", params, embed)
            steps.append(lambda s_: s_.offset(poc))
        steps.append(lambda s_: s_.slice(a, b))
        return _run_chain(stmt, steps, case), (pre_off or 0) + a, b - a
    if api == "slice":
        # slice(start, stop) with plain ints (documented signature); derive from the drawn offset/limit
        start = off or 0
        stop = start + (lim if lim is not None else 7)
        return _run_chain(stmt, [lambda s_: s_.slice(start, stop)], case), start, stop - start
    if api == "slice_rev":
        # (repaired in /repo, generated again in sub live): slice(start, stop) with stop < start is documented to behave like range(): empty
        start = (off or 0) + 2
        return _run_chain(stmt, [lambda s_: s_.slice(start, start - 1)], case), start, 0
    lc = None if lim is None else clause_for(sa, case["limit"], lim, "lim_p", params, embed)
    oc = None if off is None else clause_for(sa, case["offset"], off, "off_p", params, embed)
    if api == "fetch":
        if lc is None:
            lc = 3
            lim = 3
        steps = [lambda s_: s_.fetch(lc, with_ties=bool(case["fetch_opts"][0]), percent=bool(case["fetch_opts"][1]))]
        if oc is not None:
            steps.append(lambda s_: s_.offset(oc))
    elif api == "reset":
        steps = [lambda s_: s_.limit(3), lambda s_: s_.offset(2), lambda s_: s_.limit(lc), lambda s_: s_.offset(oc)]
    elif api == "offset_limit":
        steps = [lambda s_: s_.offset(oc), lambda s_: s_.limit(lc)]
    else:
        steps = []
        if lc is not None:
            steps.append(lambda s_: s_.limit(lc))
        if oc is not None:
            steps.append(lambda s_: s_.offset(oc))
    return _run_chain(stmt, steps, case), off or 0, lim


def py_slice(full, off, lim):
    return full[off:] if lim is None else full[off : off + lim]


def classes_for(case, n, off, lim, flags):
    cl = ["shape=" + case["shape"], "api=" + case["api"]]
    cps = case.get("cp", [])
    cl.append(f"ancestor-compiled={len(cps)}")
    for _, var in cps:
        cl.append("ancestor-on=" + VARIANTS[var % len(VARIANTS)].split("_")[0])
    if case["api"] == "pre_slice":
        sl = case.get("sl", [0, 3, False])
        has_off = bool(resolve(case["offset"], n))
        cl.append("pre_slice:" + ("offset>0" if has_off else "no-offset") + ("+start=0" if sl[0] == 0 else "+start>0") + ("+limit" if sl[2] and case["limit"] is not None else ""))
    cl.append("limit=" + ("none" if lim is None else "0" if lim == 0 else "1" if lim == 1 else ">n" if lim > n else "k"))
    cl.append("offset=" + ("none/0" if not off else ">=n" if off >= n else "k"))
    for nm in ("limit", "offset"):
        if case[nm] is not None and case["api"] != "slice":
            cl.append(f"{nm}_as=" + case[nm]["as"])
    if n == 0:
        cl.append("empty")
    return cl


def nontrivial(n, off, lim, flags, emulated=False):
    return (off > 0 and lim is not None) or lim == 0 or (off >= n and off > 0) or (emulated and bool(flags & {"distinct", "group"}))


def _rows(result):
    return [tuple(r) for r in result]


def _key(rows):
    return sorted(rows, key=repr)


# ---------------------------------------------------------------------------------------
# live
# ---------------------------------------------------------------------------------------
def check_live(case, ctx):
    w = World(case)
    try:
        sa = w.sa
        stmt, flags = w.build(case)
        with w.eng.connect() as conn:
            full = _rows(conn.execute(stmt))
            n = len(full)
            params = {}
            lstmt, off, lim = apply_limit(sa, stmt, case, n, params)
            got = _rows(conn.execute(lstmt, params))
            # the same statement a second time with other values through the cache (bind forms only)
            got2 = want2 = None
            if params:
                p2 = {k: v + 1 for k, v in params.items()}
                got2 = _rows(conn.execute(lstmt, p2))
                off2 = p2.get("off_p", off)
                lim2 = p2.get("lim_p", lim)
                if case["api"] == "pre_slice":
                    # the re-bound OFFSET moves the base, the slice start is added on top; the slice length replaced any LIMIT
                    off2 = off + 1 if "off_p" in p2 else off
                    lim2 = lim
                want2 = py_slice(full, off2, lim2)
    finally:
        w.close()
    ctx.note(case, nontrivial(n, off, lim, flags), classes=classes_for(case, n, off, lim, flags))
    want = py_slice(full, off, lim)
    if got != want and case["api"] == "slice_rev":
        raise Violation("C18/live/slice-stop-before-start", f"slice({off}, {off - 1}) is documented to behave like range() (empty) but rendered a negative LIMIT and returned {len(got)} rows", observed=got, expected=want)
    if got != want:
        kind = "order" if _key(got) == _key(want) else "rows"
        raise Violation(f"C18/live/{kind}/{_sig_part(case, off, lim)}", f"limit={lim} offset={off} over {n} rows ({case['shape']}, api={case['api']}): got {len(got)} rows {got[:6]} expected {len(want)} rows {want[:6]}", observed=got, expected=want)
    if got2 is not None and got2 != want2:
        raise Violation(f"C18/live/rebind/{_sig_part(case, off, lim)}", f"second execution with parameters {p2}: got {got2[:6]} expected {want2[:6]}", observed=got2, expected=want2)


def _sig_part(case, off, lim):
    return ("offset-only" if lim is None else "limit0" if lim == 0 else "limit+offset" if off else "limit-only") + ("/" + case["shape"] if case["shape"] in ("distinct", "group", "union") else "")


# ---------------------------------------------------------------------------------------
# ORM Query slicing
# ---------------------------------------------------------------------------------------
_FAMILY = {}


def _orm_family():
    """one immutable mapped family per process"""
    if not _FAMILY:
        import sqlalchemy as sa
        from sqlalchemy.orm import declarative_base, relationship

        Base = declarative_base()

        class A(Base):
            __tablename__ = "a"
            id = sa.Column(sa.Integer, primary_key=True)
            x = sa.Column(sa.Integer)
            y = sa.Column(sa.Integer)
            s = sa.Column(sa.String)
            bs = relationship("B", order_by="B.id", lazy="select")

        class B(Base):
            __tablename__ = "b"
            id = sa.Column(sa.Integer, primary_key=True)
            a_id = sa.Column(sa.ForeignKey("a.id"))
            z = sa.Column(sa.Integer)

        _FAMILY.update(Base=Base, A=A, B=B)
    return _FAMILY


index_ops = st.one_of(
    st.tuples(st.just("slice"), st.one_of(st.none(), st.integers(-2, 35)), st.one_of(st.none(), st.integers(-2, 35)), st.sampled_from([None, None, None, 1, 2, 3])).map(list),
    st.tuples(st.just("index"), st.integers(-2, 35)).map(list),
    st.tuples(st.just("slice_m"), st.integers(0, 33), st.integers(0, 35)).map(list),
    st.tuples(st.just("limit_offset"), st.one_of(st.none(), st.integers(0, 35)), st.one_of(st.none(), st.integers(0, 35))).map(list),
    st.tuples(st.just("select20"), st.one_of(st.none(), st.integers(0, 35)), st.one_of(st.none(), st.integers(0, 35))).map(list),
    st.tuples(st.just("first")).map(list),
    # slicing / indexing a Query that already carries OFFSET n (and maybe LIMIT l): relative to the offset result
    st.tuples(st.just("pre_slice"), st.integers(0, 12), st.one_of(st.none(), st.integers(1, 12)), st.sampled_from([0, 0, 1, 2, 5, None]), st.one_of(st.none(), st.integers(0, 14)), st.sampled_from([None, None, 2])).map(list),
    st.tuples(st.just("pre_slice"), st.integers(1, 12), st.none(), st.just(0), st.one_of(st.none(), st.integers(1, 14)), st.none()).map(list),
    st.tuples(st.just("pre_index"), st.integers(0, 12), st.one_of(st.none(), st.integers(1, 12)), st.sampled_from([0, 0, 1, 3, 9])).map(list),
    st.tuples(st.just("pre_slice_m"), st.integers(0, 12), st.one_of(st.none(), st.integers(1, 12)), st.sampled_from([0, 0, 1, 4]), st.integers(0, 8)).map(list),
)

query_cases = st.fixed_dictionaries(
    {
        "a": rows_a,
        "b": rows_b,
        "keys": st.lists(st.tuples(st.integers(0, 2), st.booleans()).map(list), max_size=2),
        "pk_desc": st.booleans(),
        "eager": st.sampled_from(["none", "joined", "joined_inner", "subquery", "selectin"]),
        "filter": st.booleans(),
        "op": index_ops,
    }
)


def check_query(case, ctx):
    import sqlalchemy as sa
    from sqlalchemy.orm import Session, joinedload, selectinload, subqueryload
    from vf.sautil import mem_engine

    fam = _orm_family()
    A, B = fam["A"], fam["B"]
    eng = mem_engine()
    try:
        fam["Base"].metadata.create_all(eng)
        na = len(case["a"])
        with eng.begin() as conn:
            if case["a"]:
                conn.execute(A.__table__.insert(), [{"id": i + 1, "x": r[0], "y": r[1], "s": r[2]} for i, r in enumerate(case["a"])])
            if case["b"]:
                conn.execute(B.__table__.insert(), [{"id": i + 1, "a_id": (r[0] % (na + 1)) or None, "z": r[1]} for i, r in enumerate(case["b"])])
        order = []
        for idx, desc in case["keys"]:
            c = [A.x, A.y, A.s][idx % 3]
            order.append(c.desc() if desc else c)
        order.append(A.id.desc() if case["pk_desc"] else A.id)
        opt = {"none": None, "joined": joinedload(A.bs), "joined_inner": joinedload(A.bs, innerjoin=True), "subquery": subqueryload(A.bs), "selectin": selectinload(A.bs)}[case["eager"]]
        op = case["op"]
        with Session(eng) as s:
            # reference: ids of the unlimited ordered query via Core; children via raw SQL
            ref = sa.select(A.__table__.c.id).order_by(*[o for o in order])
            if case["filter"]:
                ref = ref.where(A.__table__.c.y >= 1)
            if case["eager"] == "joined_inner":
                # innerjoin eager loading is documented to be used only when every parent has a child: restrict to such parents
                ref = ref.where(sa.exists().where(B.__table__.c.a_id == A.__table__.c.id))
            full = [r[0] for r in s.execute(ref)]
            kids = {}
            for bid, aid in s.execute(sa.select(B.__table__.c.id, B.__table__.c.a_id).order_by(B.__table__.c.id)):
                kids.setdefault(aid, []).append(bid)
            n = len(full)

            def q():
                qq = s.query(A).order_by(*order)
                if case["filter"]:
                    qq = qq.filter(A.y >= 1)
                if case["eager"] == "joined_inner":
                    qq = qq.filter(sa.exists().where(B.a_id == A.id))
                if opt is not None:
                    qq = qq.options(opt)
                return qq

            expect_exc = None
            kind = op[0]
            if kind == "slice":
                _, start, stop, step = op
                if isinstance(start, int) and isinstance(stop, int) and stop - start <= 0:
                    want = []
                elif (isinstance(start, int) and start < 0) or (isinstance(stop, int) and stop < 0):
                    want, expect_exc = None, IndexError
                else:
                    want = full[start:stop:step]
                try:
                    got = q()[start:stop:step]
                except IndexError:
                    got = IndexError
            elif kind == "index":
                i = op[1]
                if i < 0 or i >= n:
                    want, expect_exc = None, IndexError
                else:
                    want = [full[i]]
                try:
                    got = [q()[i]]
                except IndexError:
                    got = IndexError
            elif kind == "slice_m":
                start, stop = op[1], max(op[1], op[2])  # slice(): stop >= start (range() with stop<start is outside the generated domain, see findings)
                want = full[start:stop]
                got = q().slice(start, stop).all()
            elif kind == "limit_offset":
                lim, off = op[1], op[2]
                want = py_slice(full, off or 0, lim)
                got = q().limit(lim).offset(off).all()
            elif kind == "select20":
                lim, off = op[1], op[2]
                want = py_slice(full, off or 0, lim)
                stmt = sa.select(A).order_by(*order)
                if case["filter"]:
                    stmt = stmt.where(A.y >= 1)
                if case["eager"] == "joined_inner":
                    stmt = stmt.where(sa.exists().where(B.a_id == A.id))
                if opt is not None:
                    stmt = stmt.options(opt)
                stmt = stmt.limit(lim).offset(off)
                res = s.execute(stmt)
                got = list((res.unique() if case["eager"].startswith("joined") else res).scalars())
            elif kind in ("pre_slice", "pre_index", "pre_slice_m"):
                pn, pl = op[1], op[2]
                qq = q()
                if pl is not None:
                    qq = qq.limit(pl)
                qq = qq.offset(pn)
                base = full[pn:] if pl is None else full[pn : pn + pl]
                if kind == "pre_slice":
                    _, _, _, start, stop, step = op
                    if pl is not None:
                        # only slices inside the earlier LIMIT (see ASSUMPTIONS): open-ended ones must start at 0
                        if stop is None:
                            start = 0 if start is not None else None
                        else:
                            stop = min(stop, pl)
                    if isinstance(start, int) and isinstance(stop, int) and stop - start <= 0:
                        want = []
                    else:
                        want = base[start:stop:step]
                    got = qq[start:stop:step]
                elif kind == "pre_index":
                    i = op[3] if pl is None else op[3] % pl
                    if i >= len(base):
                        want, expect_exc = None, IndexError
                    else:
                        want = [base[i]]
                    try:
                        got = [qq[i]]
                    except IndexError:
                        got = IndexError
                else:
                    start, stop = op[3], op[3] + op[4]
                    if pl is not None:
                        stop = min(stop, pl)
                        start = min(start, stop)
                    want = base[start:stop]
                    got = qq.slice(start, stop).all()
            else:
                want = full[:1]
                f = q().first()
                got = [] if f is None else [f]
            got_ids = got if got is IndexError else [o.id for o in got]
            got_kids = None if got is IndexError else [[c.id for c in o.bs] for o in got]
    finally:
        eng.dispose()
    ctx.note(
        case,
        kind != "first" and n > 0,
        classes=["op=" + kind, "eager=" + case["eager"]]
        + (["pre:" + ("offset>0" if op[1] else "offset=0") + ("+limit" if op[2] is not None else "") + ("+start=0" if (kind != "pre_index" and op[3] in (0, None)) or (kind == "pre_index" and op[3] == 0) else "+start>0")] if kind.startswith("pre_") else [])
        + [ "expect=" + ("IndexError" if expect_exc else "empty" if not want else "rows"), "n=0" if n == 0 else "n>0"],
    )
    if expect_exc is not None:
        if got is not IndexError:
            raise Violation(f"C18/query/{kind}/no-IndexError", f"{op} over {n} rows returned {got_ids}, IndexError expected", observed=got_ids, expected="IndexError")
        return
    if got is IndexError:
        raise Violation(f"C18/query/{kind}/spurious-IndexError", f"{op} over {n} rows raised IndexError, expected {want}", observed="IndexError", expected=want)
    if got_ids != want:
        raise Violation(f"C18/query/{kind}/wrong-slice/eager={case['eager']}", f"{op} over {n} rows (eager={case['eager']}): got ids {got_ids} expected {want}", observed=got_ids, expected=want)
    want_kids = [kids.get(i, []) for i in want]
    if got_kids != want_kids:
        raise Violation(f"C18/query/{kind}/collection-truncated/eager={case['eager']}", f"{op}: collections {got_kids} expected {want_kids}", observed=got_kids, expected=want_kids)


# ---------------------------------------------------------------------------------------
# MSSQL < 2012 emulation executed on SQLite
# ---------------------------------------------------------------------------------------
def _mssql_legacy():
    from sqlalchemy.dialects import mssql

    d = mssql.dialect()
    d._supports_offset_fetch = False  # what MSDialect.initialize() sets for server_version_info < (11,)
    return d


def check_emu_mssql(case, ctx):
    from sqlalchemy import exc

    w = World(case)
    try:
        sa = w.sa
        stmt, flags = w.build(case)
        with w.eng.connect() as conn:
            full = _rows(conn.execute(stmt))
            n = len(full)
            params = {}
            lstmt, off, lim = apply_limit(sa, stmt, case, n, params)
            d = _mssql_legacy()
            comp = d.statement_compiler(d, None)
            uses_top = lstmt._has_row_limiting_clause and comp._use_top(lstmt)
            translated = comp.translate_select_structure(lstmt)
            wrapped = translated is not lstmt
            cl = classes_for(case, n, off, lim, flags) + ["wrapped" if wrapped else ("top" if uses_top else "unlimited")]
            if wrapped and "distinct" in flags and not case.get("pinned"):
                # known finding: SELECT DISTINCT ..., ROW_NUMBER() numbers the rows before DISTINCT, which then removes nothing
                ctx.exclude("DISTINCT under the MSSQL<2012 ROW_NUMBER wrapper (known finding)")
                ctx.note(case, False, classes=["excluded"])
                return
            ctx.note(case, wrapped and nontrivial(n, off, lim, flags, True), classes=cl)
            if not wrapped:
                if lstmt._has_row_limiting_clause and not uses_top:
                    raise Violation("C18/emu_mssql/not-wrapped", f"limit={lim} offset={off}: neither TOP nor ROW_NUMBER wrapper", observed=str(lstmt))
                if uses_top and (off != 0 or lim is None or lstmt._offset_clause is not None):
                    # TOP n can only express "the first n rows": choosing it for a statement that carries an OFFSET drops the offset
                    raise Violation("C18/emu_mssql/top-chosen-with-offset", f"limit={lim} offset={off}: the MSSQL compiler chose TOP (no wrapper) for a statement with an OFFSET; ancestors compiled on {[VARIANTS[v % len(VARIANTS)] for _, v in case.get('cp', [])]}", observed=str(lstmt))
                return
            # harness rewrite 1: the MSSQL compiler renders no limit/offset for the select marked _mssql_visit
            inner_alias = translated.get_final_froms()[0]
            inner = inner_alias.element
            if not getattr(inner, "_mssql_visit", False):
                raise HarnessError("inner select of the MSSQL wrapper not found")
            inner._limit_clause = inner._offset_clause = inner._fetch_clause = None
            got = _rows(conn.execute(translated, params))
    finally:
        w.close()
    want = py_slice(full, off, lim)
    if _key(got) != _key(want):
        sig = "distinct-defeated-by-row_number" if "distinct" in flags else _sig_part(case, off, lim)
        raise Violation(
            f"C18/emu_mssql/{sig}",
            f"MSSQL<2012 ROW_NUMBER wrapper for limit={lim} offset={off} over {n} rows ({case['shape']}): got {len(got)} rows {sorted(got, key=repr)[:8]} expected {len(want)} rows {sorted(want, key=repr)[:8]}",
            observed=got,
            expected=want,
        )


# ---------------------------------------------------------------------------------------
# Oracle < 12 emulation executed on SQLite
# ---------------------------------------------------------------------------------------
def _is_rownum(e):
    from sqlalchemy.sql.elements import ColumnClause

    return isinstance(e, ColumnClause) and e.is_literal and e.name == "ROWNUM"


def rewrite_oracle(sa, translated, orig):
    """ROWNUM -> row number over the inline view's ORDER BY, computed in an added derived table"""
    from sqlalchemy.sql import visitors
    from sqlalchemy.sql.util import ClauseAdapter

    # locate the ROWNUM-bearing select (limitselect) and its inline view
    outer = translated
    f0 = outer.get_final_froms()[0]
    if isinstance(f0.element, sa.sql.selectable.Select) and getattr(f0.element, "_is_wrapper", False):
        limitselect, limit_subquery = f0.element, f0
    else:
        limitselect, limit_subquery = outer, None
    inline = limitselect.get_final_froms()[0]
    inner = inline.element
    if not getattr(inner, "_oracle_visit", False):
        raise HarnessError("inline view of the Oracle wrapper not found")
    # the Oracle compiler renders no LIMIT/OFFSET for it (limit_clause() returns "")
    order_by = list(inner._order_by_clause.clauses)
    inner._limit_clause = inner._offset_clause = None
    win_order = []
    for ob in order_by:
        desc = False
        e = ob
        while True:
            if isinstance(e, sa.sql.elements._label_reference):
                e = e.element
            elif isinstance(e, sa.sql.elements.UnaryExpression) and e.modifier is not None:
                if e.modifier is sa.sql.operators.desc_op:
                    desc = True
                e = e.element
            else:
                break
        c = inline.corresponding_column(e)
        if c is None and hasattr(e, "name"):
            c = inline.c.get(e.name)
        if c is None:
            raise HarnessError(f"ORDER BY element {e} not among the inline view's columns")
        win_order.append(c.desc() if desc else c)
    rn = sa.func.row_number().over(order_by=win_order).label("vf_rn")
    numbered = sa.select(*inline.c, rn).subquery("numbered")

    def replace_rownum(elem, **kw):
        if _is_rownum(elem):
            return numbered.c.vf_rn
        return None

    ls2 = ClauseAdapter(numbered).traverse(limitselect)
    ls2 = visitors.replacement_traverse(ls2, {}, replace_rownum)
    if limit_subquery is None:
        return ls2
    new_sub = ls2.subquery("limited")
    cols = []
    for c in outer.selected_columns:
        nc = new_sub.c.get(c.key)
        if nc is None:
            raise HarnessError(f"column {c.key} missing after rewrite")
        cols.append(nc)
    out = sa.select(*cols)
    wc = outer.whereclause
    if wc is not None:
        out = out.where(wc)  # literal_column("ora_rn") > offset : resolves by name against `limited`
    return out


def check_emu_oracle(case, ctx):
    from sqlalchemy.dialects import oracle

    w = World(case)
    try:
        sa = w.sa
        stmt, flags = w.build(case)
        with w.eng.connect() as conn:
            full = _rows(conn.execute(stmt))
            n = len(full)
            params = {}
            lstmt, off, lim = apply_limit(sa, stmt, case, n, params)
            d = oracle.dialect(enable_offset_fetch=False)
            comp = d.statement_compiler(d, None)
            translated = comp.translate_select_structure(lstmt)
            wrapped = translated is not lstmt
            ctx.note(case, wrapped and nontrivial(n, off, lim, flags, True), classes=classes_for(case, n, off, lim, flags) + ["wrapped" if wrapped else "unlimited"])
            if not wrapped:
                if lstmt._has_row_limiting_clause:
                    raise Violation("C18/emu_oracle/not-wrapped", f"limit={lim} offset={off}: no ROWNUM wrapper produced", observed=str(lstmt))
                return
            runnable = rewrite_oracle(sa, translated, lstmt)
            got = _rows(conn.execute(runnable, params))
    finally:
        w.close()
    want = py_slice(full, off, lim)
    if _key(got) != _key(want):
        raise Violation(
            f"C18/emu_oracle/{_sig_part(case, off, lim)}",
            f"Oracle<12 ROWNUM wrapper for limit={lim} offset={off} over {n} rows ({case['shape']}): got {len(got)} rows {sorted(got, key=repr)[:8]} expected {len(want)} rows {sorted(want, key=repr)[:8]}",
            observed=got,
            expected=want,
        )


# ---------------------------------------------------------------------------------------
# clause interpreter (native syntaxes, compile only)
# ---------------------------------------------------------------------------------------
VARIANTS = ["sqlite", "postgresql", "mysql", "mariadb", "mssql", "mssql_legacy", "oracle", "oracle_legacy"]
_NOLIMIT_MYSQL = 18446744073709551615


def _variant_dialect(v):
    from sqlalchemy.dialects import mssql, mysql, oracle, postgresql, sqlite
    from sqlalchemy.dialects import registry

    if v == "sqlite":
        return sqlite.dialect(paramstyle="named")
    if v == "postgresql":
        return postgresql.dialect(paramstyle="named")
    if v == "mysql":
        return mysql.dialect(paramstyle="named")
    if v == "mariadb":
        from sqlalchemy.engine import make_url

        return make_url("mariadb://").get_dialect()(paramstyle="named")
    if v == "mssql":
        d = mssql.dialect(paramstyle="named")
        d._supports_offset_fetch = True  # what MSDialect.initialize() sets for server_version_info >= (11,)
        return d
    if v == "mssql_legacy":
        d = mssql.dialect(paramstyle="named")
        d._supports_offset_fetch = False
        return d
    if v == "oracle":
        return oracle.dialect()
    if v == "oracle_legacy":
        return oracle.dialect(enable_offset_fetch=False)
    raise HarnessError(v)


def _eval_int(text, params):
    """evaluate a rendered limit/offset expression: ints, :named params, +, parentheses, CAST(x AS INTEGER)"""
    t = text.strip()
    t = re.sub(r"CAST\((.*?) AS [A-Z]+\)", r"(\1)", t)
    t = re.sub(r"::[A-Z]+", "", t)
    toks = re.findall(r':"[^"]+"|:\w+|\d+|[()+-]', t)
    if "".join(toks) != re.sub(r"\s+", "", t):
        raise HarnessError(f"clause interpreter cannot parse {text!r}")
    total, sign, stack = 0, 1, []
    for tk in toks:
        if tk == "+":
            sign = 1
        elif tk == "-":
            sign = -1
        elif tk == "(":
            stack.append((total, sign))
            total, sign = 0, 1
        elif tk == ")":
            ptotal, psign = stack.pop()
            total = ptotal + psign * total
        else:
            val = params[tk[1:].strip('"')] if tk.startswith(":") else int(tk)
            total += sign * val
            sign = 1
    return total


_TAIL_PATTERNS = [
    # (regex over the tail of the statement, handler -> dict(offset, count, ties, percent))
    ("mysql_pair", re.compile(r"\s*LIMIT (?P<o>[^,\n]+?), (?P<c>[^,\n]+?)\s*$")),
    ("limit_offset", re.compile(r"\s*LIMIT (?P<c>ALL|[^\n]+?) OFFSET (?P<o>[^\n]+?)\s*$")),
    ("offset_fetch", re.compile(r"\s*OFFSET (?P<o>[^\n]+?) ROWS\s+FETCH FIRST (?P<c>[^\n]+?)(?P<pct> PERCENT)? ROWS (?P<ties>ONLY|WITH TIES)\s*$")),
    ("fetch_only", re.compile(r"\s*FETCH FIRST (?P<c>[^\n]+?)(?P<pct> PERCENT)? ROWS (?P<ties>ONLY|WITH TIES)\s*$")),
    ("offset_only_rows", re.compile(r"\s*OFFSET (?P<o>[^\n]+?) ROWS\s*$")),
    ("offset_only", re.compile(r"\s*OFFSET (?P<o>[^\n]+?)\s*$")),
    ("limit_only", re.compile(r"\s*LIMIT (?P<c>[^\n]+?)\s*$")),
]


def interpret(variant, sql, params):
    """-> dict(offset=int, count=int|None) as the backend's documented grammar defines it"""
    out = {"offset": 0, "count": None, "ties": False, "percent": False}
    text = sql
    m = re.match(r"\s*SELECT (DISTINCT )?TOP (\S+) (PERCENT )?(WITH TIES )?", text)
    top = None
    if m:
        top = _eval_int(m.group(2), params)
        out["percent"], out["ties"] = bool(m.group(3)), bool(m.group(4))
    if variant in ("mssql_legacy", "oracle_legacy") and ("mssql_rn" in text or "ROWNUM" in text):
        # wrappers: rn > o AND rn <= c  (row numbers start at 1)
        lo, hi = 0, None
        for mm in re.finditer(r"(?:mssql_rn|ora_rn|ROWNUM) (>|<=) ([^\n]+?)(?= AND |\s*$|\)? [A-Za-z_0-9]+\s*\n?WHERE|\n)", text):
            val = _eval_int(mm.group(2).rstrip(") "), params) if mm.group(2).count("(") < mm.group(2).count(")") else _eval_int(mm.group(2), params)
            if mm.group(1) == ">":
                lo = val
            else:
                hi = val
        out["offset"] = lo
        out["count"] = None if hi is None else max(hi - lo, 0)
        out["form"] = "wrapper"
        return out
    # tail after the last ORDER BY line
    idx = text.rfind("ORDER BY")
    tail = text[idx:] if idx >= 0 else text
    tail = tail.split("\n", 1)[1] if "\n" in tail else ""
    tail = " ".join(x.strip() for x in tail.split("\n") if x.strip())
    form = "none"
    if tail:
        for name, rx in _TAIL_PATTERNS:
            mm = rx.match(" " + tail)
            if mm:
                g = mm.groupdict()
                form = name
                if g.get("o") is not None:
                    out["offset"] = _eval_int(g["o"], params)
                c = g.get("c")
                if c is not None and c != "ALL":
                    out["count"] = _eval_int(c, params)
                if g.get("pct"):
                    out["percent"] = True
                if g.get("ties") == "WITH TIES":
                    out["ties"] = True
                break
        else:
            raise HarnessError(f"clause interpreter: unrecognised tail {tail!r} for {variant}")
    if variant == "sqlite" and out["count"] is not None and out["count"] < 0:
        out["count"] = None  # SQLite: negative LIMIT = no limit (documented)
    if variant in ("mysql", "mariadb") and out["count"] == _NOLIMIT_MYSQL:
        out["count"] = None  # MySQL manual's idiom for "all rows from offset"
    if top is not None:
        if form != "none":
            raise Violation(f"C18/clause/{variant}/top-and-tail", f"both TOP and a tail clause: {sql}", observed=sql)
        out["count"], form = top, "top"
    out["form"] = form
    return out


_FETCH_VARIANTS = ["postgresql", "mssql", "mssql_legacy", "oracle", "oracle_legacy"]


def _mk_clause_case(t):
    base, variant, fetch, opts = t
    c = dict(base, variant=variant, a=[], b=[], n=base["k"] * 7)
    if fetch and variant in _FETCH_VARIANTS:
        c["api"] = "fetch"
        # PostgreSQL has no PERCENT; WITH TIES/PERCENT need TOP (no offset) on SQL Server -> otherwise CompileError (modelled)
        c["fetch_opts"] = [opts[0], opts[1] and variant != "postgresql"]
    return c


clause_cases = st.tuples(
    base_cases(shapes=["simple", "join", "subq", "distinct", "group", "union"], rows=False), st.sampled_from(VARIANTS), st.booleans(), st.tuples(st.booleans(), st.booleans()).map(list)
).map(_mk_clause_case)


def check_clause(case, ctx):
    from sqlalchemy import exc

    w = World(case, engine=False)
    sa = w.sa
    variant = case["variant"]
    stmt, flags = w.build(case)
    n = case["n"]
    params = {}
    lstmt, off, lim = apply_limit(sa, stmt, case, n, params, embed=True)
    d = _variant_dialect(variant)
    pinned = case.get("pinned", False)
    if "compound" in flags and lstmt._has_row_limiting_clause and not pinned and _COMPOUND_LEGACY_EXCLUDED:
        if variant in ("mssql_legacy", "oracle_legacy"):
            ctx.exclude("LIMIT/OFFSET on a compound select for MSSQL<2012 / Oracle<12 (known finding)")
            ctx.note(case, False, classes=["excluded"])
            return
        if variant == "mssql" and d.statement_compiler(d, None)._use_top(lstmt):
            ctx.exclude("row limit that MSSQL renders as TOP (no OFFSET) on a compound select: TOP is never rendered (known finding)")
            ctx.note(case, False, classes=["excluded"])
            return
    try:
        compiled = lstmt.compile(dialect=d, compile_kwargs={"render_postcompile": True})
        sql = str(compiled)
        cparams = dict(compiled.params)
    except exc.CompileError as e:
        ctx.note(case, False, classes=["variant=" + variant, "CompileError"])
        ctx.info("CompileError:" + variant)
        return
    if not d.positional and variant.startswith("oracle"):
        pass
    got = interpret(variant, sql, cparams)
    ctx.note(case, nontrivial(max(n, 1), off, lim, flags), classes=["variant=" + variant, "form=" + got["form"], "api=" + case["api"]] + classes_for(case, max(n, 1), off, lim, flags)[2:4])
    want = {"offset": off, "count": lim}
    fo = case.get("fetch_opts") or [False, False]
    if case["api"] == "fetch" and (got["ties"], got["percent"]) != (bool(fo[0]), bool(fo[1])):
        raise Violation(f"C18/clause/{variant}/fetch-options", f"{variant}: fetch(with_ties={fo[0]}, percent={fo[1]}) rendered as ties={got['ties']} percent={got['percent']}:\n{sql}", observed=got, expected=fo)
    if got["offset"] != want["offset"] or got["count"] != want["count"]:
        sig = f"C18/clause/{variant}/{got['form']}"
        if "compound" in flags and got["form"] == "none":
            sig = f"C18/clause/{variant}/compound-limit-dropped"
        raise Violation(sig, f"{variant}: requested offset={off} count={lim}; emitted clause means offset={got['offset']} count={got['count']}:\n{sql}\nparams={cparams}", observed=got, expected=want)


_COMPOUND_LEGACY_EXCLUDED = True


def subs(tier):
    return [
        Generated("live", check_live, strategy=base_cases(apis=("limit_offset", "offset_limit", "slice", "reset", "pre_slice", "slice_rev", "limit_offset", "slice")), quick=5000, thorough=150000),
        Generated("query", check_query, strategy=query_cases, quick=2500, thorough=60000),
        Generated("emu_mssql", check_emu_mssql, strategy=base_cases(shapes=[s for s in SHAPES if s != "union"]), quick=3500, thorough=100000),
        Generated("emu_oracle", check_emu_oracle, strategy=base_cases(shapes=[s for s in SHAPES if s != "union"]), quick=3500, thorough=100000),
        Generated("clause", check_clause, strategy=clause_cases, quick=4000, thorough=100000),
    ]
