"""C28 - event listeners fire exactly as registered.

seq: programs of listen / remove / contains / subclass creation / instance
creation / dispatch over a harness-defined event.Events family on a generated
class hierarchy (multiple inheritance); a registry reference model predicts for
each dispatch exactly which listeners fire (members and multiplicity) and the
ordering constraints the property states.
once: 2-3 real threads under vf.sched call exec_once / exec_once_unless_exception
/ _exec_w_sync_on_first_run on one collection, listeners optionally raising on
their first calls: at-most-once / until-first-success / mutual exclusion until
the first success.
"""
from __future__ import annotations

from hypothesis import strategies as st

from vf.api import Enumerated, Generated, Violation

PROPERTY = "C28"
LEVEL = "exploration"
RULE = (
    "seq: programs (<=30 ops) of listen (class or instance target; insert, propagate, once, named drawn), remove, re-listen of the same function after its "
    "removal (options drawn anew), derive a new target that takes over the propagating instance-level listeners of an existing one (dispatch._update, what "
    "Column.copy / to_metadata / mapper inheritance do), contains, create subclass (1-2 bases, "
    "depth<=3), create instance, dispatch through an instance, over a fresh event.Events family; engine: the same through the real Engine/Connection "
    "event targets incl. retval=True before_cursor_execute. once: 2-3 threads x exec_once / exec_once_unless_exception / _exec_w_sync_on_first_run with "
    "listeners raising on their first k calls, under generated schedules. Non-trivial (seq): a remove, a once listener or a subclass created after a "
    "registration, followed by a dispatch it affects; (once): >=1 pre-emption taken while another thread is inside the collection; distinct = canonical JSON"
)
ASSUMPTIONS = [
    "each live registration uses its own function object (registering one function object twice at the same time is outside the stated 'each once'); a removed function may be registered again",
    "derive uses the internal dispatch._update(other) entry point, which is exactly what the library's own copying targets call",
    "order is asserted as the property states it: among listeners registered on the same target, appended ones in registration order and inserted ones "
    "before everything registered earlier on that target; class-level before instance-level; the relative order of listeners inherited from different "
    "parent classes is not asserted",
    "_exec_w_sync_on_first_run documents that it runs the listeners on every call; only mutual exclusion until the first successful run is asserted",
]


class _Inv(Exception):
    def __init__(self, sig, msg):
        super().__init__(msg)
        self.sig, self.msg = sig, msg


# ------------------------------------------------------------------------------------------- seq
def check_seq(case, ctx):
    from sqlalchemy import event
    from sqlalchemy.event import base as ev_base

    class TargetEvents(event.Events):
        def ev(self, x, y):
            pass

        def other(self, x):
            pass

    class Root:
        dispatch = event.dispatcher(TargetEvents)

    classes = [Root]
    parents = {0: []}
    depth = {0: 0}
    instances = []  # (obj, class index)
    regs = []  # dict(id, target=("cls", i)|("inst", j), insert, once, named, fn, alive, fired, time)
    calls = []
    nontrivial = False
    affecting = False  # a remove / once / late subclass happened
    cls_labels = set()

    def ancestors(ci):
        out, todo = set(), [ci]
        while todo:
            c = todo.pop()
            if c in out:
                continue
            out.add(c)
            todo.extend(parents[c])
        return out

    def mkfn(rid, named):
        if named:
            def fn(**kw):
                calls.append((rid, ("kw", kw.get("x"), kw.get("y"))))
        else:
            def fn(x, y):
                calls.append((rid, ("pos", x, y)))
        return fn

    def target_obj(t):
        return classes[t[1] % len(classes)] if t[0] == "cls" else instances[t[1] % len(instances)][0]

    try:
        for step, op in enumerate(case["ops"]):
            name = op[0]
            if name == "subclass":
                bases = sorted({b % len(classes) for b in op[1]})[:2]
                if max(depth[b] for b in bases) >= 3:
                    continue
                try:
                    C = type(f"C{len(classes)}", tuple(classes[b] for b in bases), {})
                except TypeError:
                    continue  # inconsistent MRO: not a constructible hierarchy
                classes.append(C)
                ci = len(classes) - 1
                parents[ci] = list(bases)
                depth[ci] = 1 + max(depth[b] for b in bases)
                if any(r["alive"] and r["target"][0] == "cls" and r["target"][1] in ancestors(ci) for r in regs):
                    affecting = True
                cls_labels.add("late-subclass" if regs else "subclass")
                if len(bases) > 1:
                    cls_labels.add("multiple-inheritance")
            elif name == "instance":
                ci = op[1] % len(classes)
                instances.append((classes[ci](), ci))
            elif name == "listen":
                kind = op[1]
                if kind == "inst" and not instances:
                    kind = "cls"
                t = (kind, op[2] % (len(classes) if kind == "cls" else len(instances)))
                o = op[3]
                rid = len(regs)
                fn = mkfn(rid, o["named"])
                kw = {}
                if o["insert"]:
                    kw["insert"] = True
                if o["propagate"]:
                    kw["propagate"] = True
                if o["once"]:
                    kw["once"] = True
                if o["named"]:
                    kw["named"] = True
                event.listen(target_obj(t), "ev", fn, **kw)
                regs.append(dict(id=rid, target=t, insert=o["insert"], once=o["once"], named=o["named"], fn=fn, alive=True, fired=0, time=step,
                                 propagate=bool(o["propagate"]), also=set()))
                cls_labels.update(k for k, v in o.items() if v)
                if o["once"]:
                    affecting = True
            elif name == "relisten":
                # the SAME function object registered again after it was removed, with newly drawn options
                dead = [r for r in regs if not r["alive"] and not r["once"]]
                if not dead:
                    continue
                r = dead[op[1] % len(dead)]
                o = op[2]
                kw = {}
                if o["insert"]:
                    kw["insert"] = True
                if o["propagate"]:
                    kw["propagate"] = True
                if r["named"]:
                    kw["named"] = True
                event.listen(target_obj(r["target"]), "ev", r["fn"], **kw)
                r.update(alive=True, insert=o["insert"], propagate=bool(o["propagate"]), time=step, also=set(), fired=0)
                affecting = True
                cls_labels.add("relisten-same-function")
                if o["propagate"]:
                    cls_labels.add("propagate")
            elif name == "derive":
                # a new target that takes over the *propagating* instance-level listeners of an existing one, the way Column.copy() /
                # Table.to_metadata() / mapper inheritance do (dispatch._update, only_propagate=True)
                if not instances:
                    continue
                j = op[1] % len(instances)
                src, ci = instances[j]
                new_obj = classes[ci]()
                new_obj.dispatch._update(src.dispatch)
                instances.append((new_obj, ci))
                nj = len(instances) - 1
                for r in regs:
                    if r["alive"] and r["propagate"] and ((r["target"] == ("inst", j)) or j in r["also"]):
                        r["also"].add(nj)
                        affecting = True
                cls_labels.add("derive")
            elif name == "remove":
                live = [r for r in regs if r["alive"] and not r["once"]]  # a once-wrapped function cannot be removed by its original reference
                if not live:
                    continue
                r = live[op[1] % len(live)]
                event.remove(target_obj(r["target"]), "ev", r["fn"])
                r["alive"] = False
                affecting = True
                cls_labels.add("remove")
            elif name == "contains":
                live = [r for r in regs if not r["once"]]
                if not live:
                    continue
                r = live[op[1] % len(live)]
                got = event.contains(target_obj(r["target"]), "ev", r["fn"])
                if got != r["alive"]:
                    raise Violation("C28/contains", f"step {step}: event.contains() == {got} for a listener that is {'registered' if r['alive'] else 'removed'}")
            elif name == "dispatch":
                if op[1] == "inst" and instances:
                    obj, ci = instances[op[2] % len(instances)]
                    ii = op[2] % len(instances)
                else:
                    ci = op[2] % len(classes)
                    obj = classes[ci]()
                    instances.append((obj, ci))
                    ii = len(instances) - 1
                del calls[:]
                x, y = step, -step
                obj.dispatch.ev(x, y)
                anc = ancestors(ci)
                expected = []
                for r in regs:
                    if not r["alive"]:
                        continue
                    if r["once"] and r["fired"]:
                        continue
                    if (r["target"][0] == "cls" and r["target"][1] in anc) or (r["target"][0] == "inst" and (r["target"][1] == ii or ii in r["also"])):
                        expected.append(r)
                got_ids = [rid for rid, _ in calls]
                exp_ids = sorted(r["id"] for r in expected)
                if sorted(got_ids) != exp_ids:
                    extra = sorted(set(got_ids) - set(exp_ids))
                    missing = sorted(set(exp_ids) - set(got_ids))
                    dup = sorted({i for i in got_ids if got_ids.count(i) > 1})
                    kinds = []
                    if extra:
                        e = regs[extra[0]]
                        kinds.append("removed-listener-fired" if not e["alive"] else ("once-listener-fired-again" if e["once"] else "unrelated-listener-fired"))
                    if missing:
                        kinds.append("registered-listener-not-fired")
                    if dup:
                        kinds.append("listener-fired-twice")
                    raise Violation("C28/dispatch/" + kinds[0], f"step {step}: dispatch on instance of class {ci} (ancestors {sorted(anc)}) fired {got_ids}, "
                                    f"registered for it: {exp_ids}; extra={extra} missing={missing} dup={dup}; regs={[(r['id'], r['target'], r['alive'], r['once']) for r in regs]}",
                                    observed=got_ids, expected=exp_ids)
                for rid, args in calls:
                    r = regs[rid]
                    want = ("kw", x, y) if r["named"] else ("pos", x, y)
                    if args != want:
                        raise Violation("C28/dispatch/arguments", f"step {step}: listener {rid} received {args}, expected {want}")
                pos = {rid: i for i, rid in enumerate(got_ids)}
                for a in expected:
                    for b in expected:
                        if (a["time"], a["id"]) >= (b["time"], b["id"]):
                            continue
                        # a registered before b
                        if a["target"] == b["target"]:
                            if b["insert"]:
                                ok = pos[b["id"]] < pos[a["id"]]
                                what = "inserted listener must run before those registered earlier on the same target"
                            elif not a["insert"] or True:
                                ok = pos[a["id"]] < pos[b["id"]]
                                what = "listeners on one target run in registration order"
                            if not ok:
                                raise Violation("C28/dispatch/order", f"step {step}: {what}: order {got_ids}, a={a['id']} b={b['id']} target={a['target']}", observed=got_ids)
                        elif a["target"][0] != b["target"][0]:
                            c_, i_ = (a, b) if a["target"][0] == "cls" else (b, a)
                            if not pos[c_["id"]] < pos[i_["id"]]:
                                raise Violation("C28/dispatch/order", f"step {step}: class-level listener {c_['id']} ran after instance-level {i_['id']}: {got_ids}", observed=got_ids)
                for r in expected:
                    r["fired"] += 1
                if affecting and expected or (affecting and not expected and regs):
                    nontrivial = True
        ctx.note(case, nontrivial, classes=sorted(cls_labels))
    finally:
        ev_base._remove_dispatcher(TargetEvents)


_opts = st.fixed_dictionaries({"insert": st.booleans(), "propagate": st.booleans(), "once": st.sampled_from([False, False, False, True]), "named": st.booleans()})
_seq_op = st.one_of(
    st.tuples(st.just("listen"), st.sampled_from(["cls", "cls", "inst"]), st.integers(0, 7), _opts).map(list),
    st.tuples(st.just("listen"), st.sampled_from(["cls", "cls", "inst"]), st.integers(0, 7), _opts).map(list),
    st.tuples(st.just("remove"), st.integers(0, 9)).map(list),
    st.tuples(st.just("relisten"), st.integers(0, 9), _opts).map(list),
    st.tuples(st.just("derive"), st.integers(0, 7)).map(list),
    st.tuples(st.just("contains"), st.integers(0, 9)).map(list),
    st.tuples(st.just("subclass"), st.lists(st.integers(0, 7), min_size=1, max_size=2)).map(list),
    st.tuples(st.just("instance"), st.integers(0, 7)).map(list),
    st.tuples(st.just("dispatch"), st.sampled_from(["inst", "cls"]), st.integers(0, 7)).map(list),
    st.tuples(st.just("dispatch"), st.sampled_from(["inst", "cls"]), st.integers(0, 7)).map(list),
)


_early_listen = st.tuples(st.just("listen"), st.just("cls"), st.integers(0, 7), _opts).map(list)
_sub2 = st.tuples(st.just("subclass"), st.lists(st.integers(0, 7), min_size=2, max_size=2, unique=True)).map(list)
_sub1 = st.tuples(st.just("subclass"), st.lists(st.integers(0, 7), min_size=1, max_size=1)).map(list)


@st.composite
def _seq_cases(draw):
    # a hierarchy first (so that later registrations hit classes with several bases and late subclasses see several
    # already-established parents), then the mixed program
    prefix = draw(st.lists(st.one_of(_sub1, _sub1, _sub2, _early_listen), min_size=0, max_size=6))
    body = draw(st.lists(st.one_of(_seq_op, _sub2), min_size=3, max_size=26))
    if draw(st.integers(0, 3)) == 0:
        # motif: listeners on one instance come and go (same function objects re-registered with other options), then a derived target
        # takes over the propagating ones and is dispatched
        plain = st.fixed_dictionaries({"insert": st.booleans(), "propagate": st.booleans(), "once": st.just(False), "named": st.booleans()})
        k = draw(st.integers(0, 3))
        motif = [["instance", draw(st.integers(0, 7))]]
        motif += [["listen", "inst", -1, draw(plain)] for _ in range(draw(st.integers(1, 3)))]
        motif += [draw(st.sampled_from([["remove", draw(st.integers(0, 9))], ["remove", -1], ["relisten", draw(st.integers(0, 9)), draw(plain)], ["relisten", -1, draw(plain)]]))
                  for _ in range(draw(st.integers(1, 5)))]
        motif += [["derive", -1], ["dispatch", "inst", -1]]
        at = min(k, len(body))
        body = body[:at] + motif + body[at:]
    if draw(st.integers(0, 3)) == 0:
        # motif: two sibling classes, each with its own class-level listeners, then a subclass of both created afterwards
        o = st.fixed_dictionaries({"insert": st.booleans(), "propagate": st.booleans(), "once": st.just(False), "named": st.booleans()})
        base = draw(st.integers(0, 7))
        motif = [["subclass", [base]], ["subclass", [base]]]
        for _ in range(draw(st.integers(1, 4))):
            motif.append(["listen", "cls", draw(st.sampled_from([-1, -2, -1, -2, base])), draw(o)])
        motif += [["subclass", [-1, -2]], ["dispatch", "cls", -1]]
        at = draw(st.integers(0, len(body)))
        body = body[:at] + motif + body[at:]
    return {"ops": prefix + body}


# ------------------------------------------------------------------------------------------- engine events (real targets)
def check_engine(case, ctx):
    """listen/remove on Engine class-level is global state: only engine- and connection-instance targets are used"""
    from sqlalchemy import create_engine, event, text
    from sqlalchemy.pool import StaticPool

    eng = create_engine("sqlite://", poolclass=StaticPool)
    calls = []
    regs = []
    nontrivial = False
    try:
        with eng.connect() as conn:
            for step, op in enumerate(case["ops"]):
                name = op[0]
                if name == "listen":
                    tgt = eng if op[1] == "engine" else conn
                    rid = len(regs)
                    retval = op[2]["retval"]
                    named = op[2]["named"] and not retval

                    def mk(rid=rid, retval=retval, named=named):
                        if named:
                            def fn(**kw):
                                calls.append((rid, kw["statement"]))
                        elif retval:
                            def fn(c, cursor, statement, parameters, context, executemany):
                                calls.append((rid, statement))
                                return statement + f" /*r{rid}*/", parameters
                        else:
                            def fn(c, cursor, statement, parameters, context, executemany):
                                calls.append((rid, statement))
                        return fn

                    fn = mk()
                    kw = {"insert": True} if op[2]["insert"] else {}
                    if retval:
                        kw["retval"] = True
                    if named:
                        kw["named"] = True
                    event.listen(tgt, "before_cursor_execute", fn, **kw)
                    regs.append(dict(id=rid, target=op[1], insert=op[2]["insert"], retval=retval, fn=fn, alive=True, time=step))
                elif name == "remove":
                    live = [r for r in regs if r["alive"]]
                    if not live:
                        continue
                    r = live[op[1] % len(live)]
                    event.remove(eng if r["target"] == "engine" else conn, "before_cursor_execute", r["fn"])
                    r["alive"] = False
                    nontrivial = True
                elif name == "exec":
                    del calls[:]
                    conn.execute(text("select 1"))
                    exp = [r for r in regs if r["alive"]]
                    got = [rid for rid, _ in calls]
                    if sorted(got) != sorted(r["id"] for r in exp):
                        raise Violation("C28/engine/dispatch-members", f"step {step}: fired {got}, registered {[r['id'] for r in exp]}", observed=got, expected=[r["id"] for r in exp])
                    # engine-level (parent) listeners run before connection-level; within a target registration order / inserts first
                    pos = {rid: i for i, rid in enumerate(got)}
                    for a in exp:
                        for b in exp:
                            if a["id"] < b["id"] and a["target"] == b["target"]:
                                ok = pos[b["id"]] < pos[a["id"]] if b["insert"] else pos[a["id"]] < pos[b["id"]]
                                if not ok:
                                    raise Violation("C28/engine/order", f"step {step}: order {got} violates registration order for {a['id']},{b['id']}")
                            # (the relative order of engine-level and connection-level listeners is not part of the stated property: not asserted)
                    # retval chaining: each listener sees the statement as rewritten by the retval listeners before it
                    cur = "select 1"
                    for rid, seen in calls:
                        if seen != cur:
                            raise Violation("C28/engine/retval-chain", f"step {step}: listener {rid} saw {seen!r}, expected {cur!r}")
                        if regs[rid]["retval"]:
                            cur = cur + f" /*r{rid}*/"
        ctx.note(case, nontrivial or any(r["retval"] for r in regs), classes=["retval"] if any(r["retval"] for r in regs) else [])
    finally:
        eng.dispose()


_eopts = st.fixed_dictionaries({"insert": st.booleans(), "retval": st.booleans(), "named": st.booleans()})
_eng_op = st.one_of(
    st.tuples(st.just("listen"), st.sampled_from(["engine", "conn"]), _eopts).map(list),
    st.tuples(st.just("remove"), st.integers(0, 9)).map(list),
    st.tuples(st.just("exec")).map(list),
    st.tuples(st.just("exec")).map(list),
)


@st.composite
def _eng_cases(draw):
    return {"ops": draw(st.lists(_eng_op, min_size=2, max_size=14))}


# ------------------------------------------------------------------------------------------- once under schedules
TARGETS = ("sqlalchemy/event/attr.py",)


def check_once(case, ctx):
    import sqlalchemy.util as sa_util
    from sqlalchemy import event
    from sqlalchemy.event import attr as ev_attr
    from sqlalchemy.event import base as ev_base

    from vf import sched as S

    class OnceEvents(event.Events):
        def ev(self, x):
            pass

    class Tgt:
        dispatch = event.dispatcher(OnceEvents)

    method = case["method"]
    fail_first = case["fail_first"]  # the listener raises on its first k body runs
    nthreads = case["threads"]
    preempt = {int(k): v for k, v in case["preempt"]}
    sch = S.Scheduler(preempt=preempt, picks=case.get("picks", []), target_files=TARGETS, max_steps=20000)
    st_ = {"inside": 0, "runs": 0, "successes": 0, "max_inside": 0, "overlap_before_success": False}

    def listener(x):
        st_["inside"] += 1
        st_["runs"] += 1
        st_["max_inside"] = max(st_["max_inside"], st_["inside"])
        if st_["inside"] > 1 and st_["successes"] == 0:
            st_["overlap_before_success"] = True
        n = st_["runs"]
        try:
            sch.yield_point("listener-body")
            sch.yield_point("listener-body2")
            if n <= fail_first:
                raise ValueError("listener failure %d" % n)
            st_["successes"] += 1
        finally:
            st_["inside"] -= 1

    saved_gil = sa_util.mini_gil
    try:
        with S.patched(sch, [ev_attr]):
            sa_util.mini_gil = S.SLock(sch, True)
            t = Tgt()
            event.listen(t, "ev", listener)
            coll = t.dispatch.ev
            errs = []

            def work(w):
                for _ in range(case["calls"]):
                    try:
                        getattr(coll, method)(1)
                    except ValueError:
                        errs.append(w.tid)

            for _ in range(nthreads):
                sch.spawn(work)
            sch.run()
    finally:
        sa_util.mini_gil = saved_gil
        ev_base._remove_dispatcher(OnceEvents)

    ctx.note(case, len(sch.trace_log) >= 1 and sch.contended_preemptions >= 0 and len(sch.trace_log) > 0, classes=[method, "fail%d" % fail_first, "preempt%d" % len(sch.trace_log)])
    for k, e in sch.errors:
        if k == "deadlock":
            raise Violation("C28/once/deadlock", str(e))
        if k == "harness":
            from vf.api import HarnessError

            raise HarnessError(str(e))
    for w in sch.threads:
        if w.exc is not None:
            raise w.exc
    total_calls = nthreads * case["calls"]
    info = f"method={method} threads={nthreads} calls={case['calls']} fail_first={fail_first} runs={st_['runs']} successes={st_['successes']} schedule={sch.trace_log[:6]}"
    if method == "exec_once":
        if st_["runs"] > 1:
            raise Violation("C28/once/exec_once-ran-more-than-once", info)
        if st_["runs"] != 1:
            raise Violation("C28/once/exec_once-never-ran", info)
        if st_["max_inside"] > 1:
            raise Violation("C28/once/concurrent-listener-body", info)
    elif method == "exec_once_unless_exception":
        exp_runs = min(total_calls, fail_first + 1)
        if st_["successes"] > 1 or st_["runs"] != exp_runs:
            raise Violation("C28/once/unless_exception-run-count", info + f" expected runs={exp_runs}")
        if st_["max_inside"] > 1:
            raise Violation("C28/once/concurrent-listener-body", info)
    else:
        if st_["runs"] != total_calls:
            raise Violation("C28/once/sync_first_run-run-count", info + f" expected runs={total_calls}")
        if st_["overlap_before_success"]:
            raise Violation("C28/once/first-run-not-synchronised", info)


@st.composite
def _once_cases(draw):
    return {
        "method": draw(st.sampled_from(["exec_once", "exec_once_unless_exception", "_exec_w_sync_on_first_run"])),
        "threads": draw(st.integers(2, 3)),
        "calls": draw(st.integers(1, 2)),
        "fail_first": draw(st.integers(0, 2)),
        "preempt": [list(x) for x in sorted({(draw(st.integers(1, 90)), draw(st.integers(0, 2))) for _ in range(draw(st.integers(0, 5)))})],
        "picks": draw(st.lists(st.integers(0, 2), max_size=4)),
    }


def _once_enum(tier):
    for method in ("exec_once", "exec_once_unless_exception", "_exec_w_sync_on_first_run"):
        for ff in (0, 1):
            rng = list(range(1, 70 if tier == "quick" else 110))
            for a in rng:
                yield {"method": method, "threads": 2, "calls": 1, "fail_first": ff, "preempt": [[a, 0]], "picks": []}
            g = rng[::5 if tier == "quick" else 2]
            for i, a in enumerate(g):
                for b in g[i + 1:]:
                    yield {"method": method, "threads": 2, "calls": 1, "fail_first": ff, "preempt": [[a, 0], [b, 0]], "picks": []}


def subs(tier):
    return [
        Generated("seq", check_seq, strategy=_seq_cases(), quick=2500, thorough=150000),
        Generated("engine", check_engine, strategy=_eng_cases(), quick=600, thorough=20000),
        Enumerated("once_enum", check_once, cases=_once_enum),
        Generated("once", check_once, strategy=_once_cases(), quick=600, thorough=20000),
    ]
