"""C22 - compiling a well-formed construct never fails with an internal error.

A case is a *choice sequence* (list of small ints).  A builder consumes it (``pick(n)`` = next
choice mod n; an exhausted sequence yields 0 = the simplest alternative) and produces one Core
statement or DDL element using only constructor argument shapes that the documentation shows for
that constructor.  The construct is then compiled on every dialect variant (sqlite, postgresql x2,
mysql, mariadb, mssql x2, oracle x3) under a drawn compile option (plain / literal_binds /
render_postcompile / another paramstyle).

Allowed outcomes: a string, CompileError (incl. UnsupportedCompilationError), InvalidRequestError,
ArgumentError, any other SQLAlchemyError.  Anything else raised from inside lib/sqlalchemy is a
violation, bucketed by (exception type, innermost sqlalchemy frame function).  All buckets seen in
a case are recorded (evidence notes "bucket ..."); the case raises one Violation for the first
bucket that is not a listed known finding.  Errors raised while *constructing* the statement are
not compile-time: counted (notes "ctor ...") and excluded.
"""
from __future__ import annotations

import os
import traceback
import warnings

from hypothesis import strategies as st

from vf.api import Generated, HarnessError, Violation

PROPERTY = "C22"
LEVEL = "exploration"
RULE = (
    "case = choice sequence of <=120 ints driving a typed recursive builder over a fixed 4-table schema: SELECT (joins, lateral, tablesample, values, CTE incl. recursive/nesting, "
    "set operations, window/within_group/filter, JSON/ARRAY/regexp/tuple operators, limit/offset/fetch, for update, hints), INSERT/UPDATE/DELETE (multi-values, from_select, RETURNING, "
    "multi-table, CTE, dialect upserts), DDL (CreateTable with constraints/identity/computed/comments/dialect options, indexes, sequences, schemas, comments, CreateTableAs/CreateView); "
    "compiled on 10 dialect variants x drawn compile option. Non-trivial: the statement nests >=2 different construct kinds (compiled on non-default dialects always); distinct = the choice sequence"
)
ASSUMPTIONS = [
    "only constructor argument shapes shown in the documentation are generated; exceptions at construction time are excluded (counted in notes)",
    "allowed compile outcomes: str, CompileError/UnsupportedCompilationError, InvalidRequestError, ArgumentError, other SQLAlchemyError",
    "dialects are instantiated without a connection; server-version dependent flags are set the way initialize() sets them",
    "warnings are ignored",
]

LIB = os.path.join(os.environ.get("VERIF_REPO", "/repo"), "lib")


# ---------------------------------------------------------------------------------------
# dialect variants
# ---------------------------------------------------------------------------------------
VARIANTS = ["sqlite", "postgresql", "postgresql_asyncpg", "mysql", "mariadb", "mssql", "mssql_legacy", "oracle", "oracle_legacy", "oracle_nonansi"]
_DIALECT_CACHE = {}


def variant_dialect(name, paramstyle=None):
    key = (name, paramstyle)
    if key in _DIALECT_CACHE:
        return _DIALECT_CACHE[key]
    from sqlalchemy.dialects import mssql, mysql, oracle, postgresql, sqlite
    from sqlalchemy.engine import make_url

    kw = {"paramstyle": paramstyle} if paramstyle else {}
    if name == "sqlite":
        d = sqlite.dialect(**kw)
    elif name == "postgresql":
        d = postgresql.dialect(**kw)
    elif name == "postgresql_asyncpg":
        d = make_url("postgresql+asyncpg://").get_dialect()(**kw)
    elif name == "mysql":
        d = mysql.dialect(**kw)
    elif name == "mariadb":
        d = make_url("mariadb://").get_dialect()(**kw)
    elif name == "mssql":
        d = mssql.dialect(**kw)
        d._supports_offset_fetch = True
    elif name == "mssql_legacy":
        d = mssql.dialect(**kw)
        d._supports_offset_fetch = False
    elif name == "oracle":
        d = oracle.dialect(**kw)
    elif name == "oracle_legacy":
        d = oracle.dialect(enable_offset_fetch=False, optimize_limits=True, **kw)
    elif name == "oracle_nonansi":
        d = oracle.dialect(use_ansi=False, **kw)
    else:
        raise HarnessError(name)
    # what initialize() would have read from a live connection
    d.default_schema_name = {"sqlite": "main", "postgresql": "public", "mysql": "test", "mariadb": "test", "mssql": "dbo", "oracle": "scott"}[d.name]
    _DIALECT_CACHE[key] = d
    return d


COMPILE_OPTS = ["plain", "literal_binds", "render_postcompile", "paramstyle"]
PARAMSTYLES = ["qmark", "format", "pyformat", "numeric", "named", "numeric_dollar"]


# ---------------------------------------------------------------------------------------
# the builder
# ---------------------------------------------------------------------------------------
class B:
    MAX_DEPTH = 3

    def __init__(self, choices):
        import sqlalchemy as sa
        from sqlalchemy.dialects import postgresql

        self.sa = sa
        self.ch = list(choices)
        self.i = 0
        self.kinds = set()
        self.n = 0
        self.owner = None  # dialect owning the dialect-specific types / upsert used by this construct (compiled there only)
        md = self.md = sa.MetaData()
        self.t1 = sa.Table(
            "t1",
            md,
            sa.Column("id", sa.Integer, primary_key=True),
            sa.Column("x", sa.Integer),
            sa.Column("s", sa.String(40)),
            sa.Column("f", sa.Float),
            sa.Column("b", sa.Boolean),
            sa.Column("d", sa.Date),
            sa.Column("ts", sa.DateTime),
            sa.Column("j", sa.JSON),
            sa.Column("n", sa.Numeric(10, 2)),
        )
        self.t2 = sa.Table("t2", md, sa.Column("id", sa.Integer, primary_key=True), sa.Column("t1_id", sa.ForeignKey("t1.id")), sa.Column("y", sa.Integer), sa.Column("s", sa.String(40)))
        self.t3 = sa.Table("t3", md, sa.Column("id", sa.Integer, primary_key=True), sa.Column("z", sa.Integer), sa.Column("s", sa.Text), schema="sch")
        self.tp = sa.Table("tp", md, sa.Column("id", sa.Integer, primary_key=True), sa.Column("arr", postgresql.ARRAY(sa.Integer)), sa.Column("jb", postgresql.JSONB), sa.Column("tags", postgresql.ARRAY(sa.String, dimensions=2)))
        self.scope = [self.t1]  # FROM objects whose columns expressions may reference

    # -- choice plumbing
    def pick(self, n):
        if self.i < len(self.ch):
            v = self.ch[self.i] % n
        else:
            v = 0
        self.i += 1
        return v

    def flag(self):
        return self.pick(2) == 1

    def name(self, prefix):
        self.n += 1
        return f"{prefix}{self.n}"

    def k(self, *names):
        self.kinds.update(names)

    # -- columns in scope by type
    def _cols(self, pytype):
        sa = self.sa
        out = []
        for f in self.scope:
            for c in f.c:
                try:
                    pt = c.type.python_type
                except NotImplementedError:
                    continue
                if pt is pytype:
                    out.append(c)
        return out

    def typed_col(self, *pytypes):
        import datetime
        import decimal

        for f in self.scope:
            for c in f.c:
                try:
                    if c.type.python_type in pytypes:
                        return c
                except NotImplementedError:
                    continue
        return None

    def outer_id(self):
        """first column of the first FROM object in scope (correlation target)"""
        return list(self.scope[0].c)[0] if self.scope else self.sa.literal(1)

    def date_expr(self):
        import datetime

        c = self.typed_col(datetime.date, datetime.datetime)
        return c if c is not None else self.sa.func.now()

    def float_expr(self):
        import decimal

        c = self.typed_col(float, decimal.Decimal)
        return c if c is not None else self.sa.literal(1.5)

    def json_col(self):
        sa = self.sa
        for f in self.scope:
            for c in f.c:
                if isinstance(c.type, sa.JSON):
                    return c
        return sa.type_coerce({"a": {"b": 1}, "k": 2}, sa.JSON)

    def dialect_type(self):
        dts = dialect_types()
        if self.owner is None:
            self.owner = sorted(dts)[self.pick(len(dts))]
        lst = dts[self.owner]
        self.k("dialect_type")
        return lst[self.pick(len(lst))]()

    def int_col(self):
        cs = self._cols(int)
        return cs[self.pick(len(cs))] if cs else self.sa.literal(1)

    def str_col(self):
        cs = self._cols(str)
        return cs[self.pick(len(cs))] if cs else self.sa.literal("s")

    # -- typed expressions
    def int_expr(self, d=0):
        sa = self.sa
        if d >= self.MAX_DEPTH:
            return self.int_col() if self.flag() else sa.literal(self.pick(7))
        c = self.pick(24)
        if c == 0:
            return self.int_col()
        if c == 1:
            return sa.literal(self.pick(100))
        if c == 2:
            return sa.bindparam(self.name("p"), self.pick(9), type_=sa.Integer)
        if c == 3:
            op = self.pick(6)
            a, b = self.int_expr(d + 1), self.int_expr(d + 1)
            self.k("arith")
            return [a + b, a - b, a * b, a / b, a // b, a % b][op]
        if c == 4:
            self.k("func")
            fn = [sa.func.abs, sa.func.coalesce, sa.func.max, sa.func.min, sa.func.sum, sa.func.count, sa.func.length, sa.func.char_length][self.pick(8)]
            if fn in (sa.func.length, sa.func.char_length):
                return fn(self.str_expr(d + 1))
            if fn is sa.func.coalesce:
                return fn(self.int_expr(d + 1), self.int_expr(d + 1))
            return fn(self.int_expr(d + 1))
        if c == 5:
            self.k("cast")
            return sa.cast(self.any_expr(d + 1), [sa.Integer, sa.BigInteger, sa.SmallInteger, sa.Numeric(12, 3), sa.Float][self.pick(5)])
        if c == 6:
            self.k("case")
            whens = [(self.bool_expr(d + 1), self.int_expr(d + 1)) for _ in range(1 + self.pick(2))]
            return sa.case(*whens, else_=self.int_expr(d + 1)) if self.flag() else sa.case(*whens)
        if c == 7:
            self.k("case")
            return sa.case({1: self.int_expr(d + 1), 2: sa.literal(5)}, value=self.int_col(), else_=0)
        if c == 8:
            self.k("scalar_subquery")
            return self.scalar_subquery(d + 1)
        if c == 9:
            self.k("window")
            return self.window(d + 1)
        if c == 10:
            self.k("filter")
            f = sa.func.count(self.int_col()).filter(self.bool_expr(d + 1))
            return f.over(partition_by=self.int_col()) if self.flag() else f
        if c == 11:
            self.k("extract")
            return sa.extract(["year", "month", "day", "dow", "doy", "epoch", "hour", "quarter", "week", "microseconds"][self.pick(10)], self.date_expr())
        if c == 12:
            self.k("type_coerce")
            return sa.type_coerce(self.any_expr(d + 1), sa.Integer)
        if c == 13:
            return -self.int_expr(d + 1)
        if c == 14:
            self.k("bitwise")
            a, b = self.int_expr(d + 1), self.int_expr(d + 1)
            return [a.bitwise_and(b), a.bitwise_or(b), a.bitwise_xor(b), a.bitwise_lshift(b), a.bitwise_rshift(b), sa.bitwise_not(a)][self.pick(6)]
        if c == 15:
            self.k("within_group")
            return [
                sa.func.percentile_cont(0.5).within_group(self.int_col()),
                sa.func.percentile_disc(0.25).within_group(self.int_col().desc()),
                sa.func.mode().within_group(self.int_col()),
                sa.func.rank(self.pick(5)).within_group(self.int_col()),
            ][self.pick(4)]
        if c == 16:
            self.k("try_cast")
            return sa.try_cast(self.str_expr(d + 1), sa.Integer)
        if c == 17:
            self.k("json")
            return self.json_expr(d + 1, "int")
        if c == 18:
            self.k("literal_column")
            return sa.literal_column("42", sa.Integer)
        if c == 19:
            self.k("null")
            return sa.cast(sa.null(), sa.Integer)
        if c == 20:
            self.k("array")
            return self.array_expr(d + 1, "int")
        if c == 21:
            self.k("func")
            return sa.func.coalesce(sa.func.sum(self.int_expr(d + 1)), 0)
        if c == 22:
            self.k("label")
            return self.int_expr(d + 1).label(self.name("l"))
        self.k("cast")
        return sa.cast(self.any_expr(d + 1), self.dialect_type())

    def str_expr(self, d=0):
        sa = self.sa
        if d >= self.MAX_DEPTH:
            return self.str_col() if self.flag() else sa.literal("x")
        c = self.pick(14)
        if c == 0:
            return self.str_col()
        if c == 1:
            return sa.literal(["a", "%", "it's", "", "é", "a_b"][self.pick(6)])
        if c == 2:
            self.k("concat")
            return self.str_expr(d + 1) + self.str_expr(d + 1)
        if c == 3:
            self.k("func")
            return [sa.func.lower, sa.func.upper, sa.func.trim][self.pick(3)](self.str_expr(d + 1))
        if c == 4:
            self.k("cast")
            return sa.cast(self.any_expr(d + 1), [sa.String, sa.String(20), sa.Text, sa.Unicode(10), sa.CHAR(3)][self.pick(5)])
        if c == 5:
            self.k("regexp")
            return self.str_expr(d + 1).regexp_replace("a+", "b", flags="g" if self.flag() else None)
        if c == 6:
            self.k("collate")
            return sa.collate(self.str_expr(d + 1), ["NOCASE", "C", "utf8mb4_bin", "Latin1_General_CI_AS"][self.pick(4)])
        if c == 7:
            self.k("json")
            return self.json_expr(d + 1, "str")
        if c == 8:
            self.k("func")
            return sa.func.coalesce(self.str_expr(d + 1), "")
        if c == 9:
            self.k("case")
            return sa.case((self.bool_expr(d + 1), self.str_expr(d + 1)), else_="z")
        if c == 10:
            self.k("aggregate_strings")
            return sa.func.aggregate_strings(self.str_expr(d + 1), ",")
        if c == 11:
            self.k("scalar_subquery")
            return sa.select(sa.func.max(self.t2.c.s)).where(self.t2.c.t1_id == self.outer_id()).scalar_subquery()
        if c == 12:
            self.k("concat")
            return sa.func.concat(self.str_expr(d + 1), "-", self.str_expr(d + 1))
        return sa.bindparam(self.name("p"), "v", type_=sa.String)

    def any_expr(self, d=0):
        c = self.pick(4)
        if c == 0:
            return self.int_expr(d)
        if c == 1:
            return self.str_expr(d)
        return self.float_expr()

    def bool_expr(self, d=0):
        sa = self.sa
        if d >= self.MAX_DEPTH:
            return self.int_col() > self.pick(5)
        c = self.pick(26)
        if c == 0:
            a, b = self.int_expr(d + 1), self.int_expr(d + 1)
            return [a == b, a != b, a < b, a <= b, a > b, a >= b][self.pick(6)]
        if c == 1:
            self.k("boolop")
            return sa.and_(self.bool_expr(d + 1), self.bool_expr(d + 1))
        if c == 2:
            self.k("boolop")
            return sa.or_(self.bool_expr(d + 1), self.bool_expr(d + 1))
        if c == 3:
            self.k("boolop")
            return sa.not_(self.bool_expr(d + 1))
        if c == 4:
            return self.any_expr(d + 1).is_(None) if self.flag() else self.any_expr(d + 1).is_not(None)
        if c == 5:
            self.k("in")
            e = self.int_expr(d + 1)
            vals = [[1, 2, 3], [], [None, 1], [self.int_expr(d + 1), 4]][self.pick(4)]
            return e.in_(vals) if self.flag() else e.not_in(vals)
        if c == 6:
            self.k("in", "subquery")
            return self.int_expr(d + 1).in_(sa.select(self.t2.c.y).where(self.t2.c.y > self.pick(4)))
        if c == 7:
            self.k("in")
            return self.int_expr(d + 1).in_(sa.bindparam(self.name("p"), [1, 2], expanding=True))
        if c == 8:
            self.k("between")
            return self.int_expr(d + 1).between(self.int_expr(d + 1), self.int_expr(d + 1), symmetric=self.flag())
        if c == 9:
            self.k("exists")
            return self.exists(d + 1)
        if c == 10:
            self.k("like")
            s = self.str_expr(d + 1)
            o = self.pick(8)
            if o == 0:
                return s.like("a%")
            if o == 1:
                return s.ilike("%b", escape="/")
            if o == 2:
                return s.contains("x%", autoescape=True)
            if o == 3:
                return s.startswith(self.str_expr(d + 1))
            if o == 4:
                return s.endswith("z", escape="^")
            if o == 5:
                return s.icontains("q")
            if o == 6:
                return s.not_like("n%")
            return s.istartswith("a", autoescape=True)
        if c == 11:
            self.k("regexp")
            return self.str_expr(d + 1).regexp_match("^a.*", flags="i" if self.flag() else None)
        if c == 12:
            self.k("distinct_from")
            a, b = self.int_expr(d + 1), self.int_expr(d + 1)
            return a.is_distinct_from(b) if self.flag() else a.is_not_distinct_from(b)
        if c == 13:
            self.k("any_all")
            sub = sa.select(self.t2.c.y).where(self.t2.c.t1_id == self.outer_id()).scalar_subquery()
            return self.int_expr(d + 1) == (sa.any_(sub) if self.flag() else sa.all_(sub))
        if c == 14:
            return sa.true() if self.flag() else sa.false()
        if c == 15:
            bc = self.typed_col(bool)
            if bc is None:
                return sa.true()
            return bc if self.flag() else bc.is_(True)
        if c == 16:
            self.k("tuple")
            t = sa.tuple_(self.int_col(), self.str_col())
            return t.in_([(1, "a"), (2, "b")]) if self.flag() else t == sa.tuple_(1, "a")
        if c == 17:
            self.k("json")
            return self.json_expr(d + 1, "bool")
        if c == 18:
            self.k("array")
            return self.array_expr(d + 1, "bool")
        if c == 19:
            self.k("match")
            return self.str_col().match("word")
        if c == 20:
            self.k("tuple", "in", "subquery")
            return sa.tuple_(self.outer_id(), self.int_col()).in_(sa.select(self.t2.c.t1_id, self.t2.c.y))
        if c == 21:
            a, b = self.str_expr(d + 1), self.str_expr(d + 1)
            return [a == b, a != b, a < b][self.pick(3)]
        if c == 22:
            return self.date_expr() >= sa.func.current_date() if self.flag() else self.date_expr() < sa.func.now()
        if c == 23:
            self.k("boolop")
            return sa.and_(*[self.bool_expr(d + 1) for _ in range(self.pick(3))]) if self.flag() else sa.or_(sa.false(), self.bool_expr(d + 1))
        if c == 24:
            self.k("in")
            return self.str_expr(d + 1).in_(["a", "b"])
        return self.float_expr() > 1.5

    def json_expr(self, d, want):
        sa = self.sa
        j = self.json_col()
        p = self.pick(4)
        e = j["k"] if p == 0 else j[1] if p == 1 else j[("a", 1, "b")] if p == 2 else j["a"]["b"]
        if want == "int":
            return e.as_integer() if self.flag() else e.as_numeric(10, 2)
        if want == "str":
            return e.as_string()
        o = self.pick(4)
        if o == 0:
            return e.as_boolean()
        if o == 1:
            return e.as_float() > 1.0
        if o == 2:
            return e.as_json() == {"a": 1}
        return e.as_string() == "v"

    def array_expr(self, d, want):
        sa = self.sa
        from sqlalchemy.dialects import postgresql

        arr = self.tp.c.arr
        if self.tp not in self.scope:
            # array constructs against a literal array only
            arr = postgresql.array([1, 2, self.int_expr(d + 1)])
        if want == "int":
            o = self.pick(4)
            if o == 0:
                return arr[1]
            if o == 1:
                return sa.func.array_length(arr, 1)
            if o == 2:
                return sa.func.cardinality(arr)
            return sa.func.array_position(arr, 2)
        o = self.pick(6)
        if o == 0:
            return arr.contains([1])
        if o == 1:
            return arr.contained_by([1, 2, 3])
        if o == 2:
            return arr.overlap([2])
        if o == 3:
            return 5 == sa.any_(arr)
        if o == 4:
            return 5 > sa.all_(arr)
        return arr[1:2] == [1]

    def window(self, d):
        sa = self.sa
        fn = [sa.func.row_number(), sa.func.rank(), sa.func.dense_rank(), sa.func.sum(self.int_col()), sa.func.lag(self.int_col(), 1), sa.func.count(), sa.func.ntile(4), sa.func.first_value(self.int_col())][self.pick(8)]
        kw = {}
        o = self.pick(8)
        if o & 1:
            kw["partition_by"] = self.int_col() if self.flag() else [self.int_col(), self.str_col()]
        if o & 2:
            kw["order_by"] = self.order_elem(d) if self.flag() else [self.order_elem(d), self.order_elem(d)]
        if o & 4:
            frame = [(None, 0), (-2, 2), (0, None), (None, None), (1, 3), (-3, -1)][self.pick(6)]
            kw[["rows", "range_", "groups"][self.pick(3)]] = frame
        return fn.over(**kw)

    def order_elem(self, d):
        sa = self.sa
        e = self.int_expr(d + 1) if self.pick(3) else self.str_expr(d + 1)
        o = self.pick(7)
        if o == 0:
            return e
        if o == 1:
            return e.desc()
        if o == 2:
            return e.asc()
        if o == 3:
            return e.desc().nulls_last()
        if o == 4:
            return e.asc().nulls_first()
        if o == 5:
            return sa.nulls_first(e)
        return sa.desc(e)

    # -- selectables
    def scalar_subquery(self, d):
        sa = self.sa
        inner = sa.select(sa.func.max(self.t2.c.y))
        if self.flag():
            inner = inner.where(self.t2.c.t1_id == self.outer_id())
        if self.flag() and self.scope and self.scope[0] is not self.t2:
            inner = inner.correlate(self.scope[0])
        return inner.scalar_subquery()

    def exists(self, d):
        sa = self.sa
        o = self.pick(3)
        if o == 0:
            return sa.exists().where(self.t2.c.t1_id == self.outer_id())
        if o == 1:
            return sa.select(self.t2.c.id).where(self.t2.c.y > 0).exists()
        return ~sa.exists(sa.select(self.t3.c.id).where(self.t3.c.z == self.int_col()))

    def from_obj(self, d):
        """returns a FROM object and registers it in scope"""
        sa = self.sa
        c = self.pick(12) if d < self.MAX_DEPTH else 0
        if c == 0:
            f = [self.t1, self.t2, self.t3, self.tp][self.pick(4)]
        elif c == 1:
            self.k("alias")
            f = [self.t1, self.t2, self.t3][self.pick(3)].alias(self.name("a"))
        elif c == 2:
            self.k("subquery")
            f = self.select(d + 1, simple_cols=True).subquery(self.name("sq"))
        elif c == 3:
            self.k("cte")
            s = self.select(d + 1, simple_cols=True)
            f = s.cte(self.name("c"), nesting=self.flag()) if self.flag() else s.cte(self.name("c"))
            if self.pick(4) == 0:
                f = f.prefix_with("MATERIALIZED" if self.flag() else "NOT MATERIALIZED", dialect="postgresql")
        elif c == 4:
            self.k("cte", "recursive")
            base = sa.select(self.t1.c.id.label("id"), self.t1.c.x.label("x")).where(self.t1.c.x == 1).cte(self.name("r"), recursive=True)
            rec = sa.select(self.t1.c.id, self.t1.c.x).join(base, self.t1.c.x == base.c.id)
            f = base.union_all(rec) if self.flag() else base.union(rec)
        elif c == 5:
            self.k("values")
            v = sa.values(sa.column("id", sa.Integer), sa.column("s", sa.String), name=self.name("v")).data([(1, "a"), (2, "b")])
            f = v
        elif c == 6:
            self.k("tablesample")
            t = [self.t1, self.t2][self.pick(2)]
            o = self.pick(3)
            f = sa.tablesample(t, sa.func.bernoulli(1), name=self.name("ts"), seed=sa.func.random()) if o == 0 else t.tablesample(sa.func.system(5), name=self.name("ts")) if o == 1 else t.tablesample(10)
        elif c == 7:
            self.k("lateral")
            f = sa.select(self.t2.c.y.label("y"), self.t2.c.id.label("id")).where(self.t2.c.t1_id == self.outer_id()).order_by(self.t2.c.y).limit(1 + self.pick(3)).lateral(self.name("lat"))
        elif c == 8:
            self.k("setop", "subquery")
            f = self.setop(d + 1).subquery(self.name("u"))
        elif c == 9:
            self.k("table_valued")
            o = self.pick(3)
            f = sa.func.generate_series(1, 5).table_valued("value", name=self.name("gs")) if o == 0 else sa.func.json_each(self.json_col()).table_valued("key", "value", name=self.name("je")) if o == 1 else sa.func.unnest(sa.literal_column("ARRAY[1,2]")).table_valued("u", with_ordinality="o", name=self.name("un"))
        elif c == 10:
            self.k("text")
            f = sa.text("select 1 as id, 2 as x").columns(sa.column("id", sa.Integer), sa.column("x", sa.Integer)).subquery(self.name("tx"))
        else:
            self.k("table_function")
            f = sa.table(self.name("lt"), sa.column("id", sa.Integer), sa.column("x", sa.Integer), schema="other" if self.flag() else None)
        return f

    def select(self, d=0, simple_cols=False):
        sa = self.sa
        saved = self.scope
        # FROM
        f0 = self.from_obj(d) if d > 0 or self.pick(3) else self.t1
        self.scope = [f0]
        from_ = f0
        njoin = self.pick(3) if d < self.MAX_DEPTH else 0
        for _ in range(njoin):
            self.k("join")
            f1 = self.from_obj(d + 1)
            if f1 in self.scope or getattr(f1, "name", None) in [getattr(x, "name", None) for x in self.scope]:
                f1 = f1.alias(self.name("j")) if hasattr(f1, "alias") else f1
            lc = list(self.scope[0].c)[0]
            rc = list(f1.c)[0]
            o = self.pick(5)
            on = lc == rc if o != 4 else sa.true()
            from_ = from_.join(f1, on) if o in (0, 4) else from_.outerjoin(f1, on) if o == 1 else from_.join(f1, on, full=True) if o == 2 else sa.join(from_, f1, on, isouter=True)
            self.scope.append(f1)
        # columns
        ncols = 1 + self.pick(3)
        cols = []
        if simple_cols:
            # stable, labelled columns for derived tables
            cols = [list(f0.c)[0].label("id"), self.int_expr(d + 1).label("x")]
        else:
            for i in range(ncols):
                e = self.any_expr(d + 1) if self.pick(4) else self.bool_expr(d + 1)
                cols.append(e.label(self.name("c")) if self.pick(3) else e)
        stmt = sa.select(*cols).select_from(from_)
        # clauses
        o = self.pick(64)
        if o & 1:
            stmt = stmt.where(self.bool_expr(d + 1))
        if o & 2:
            self.k("group_by")
            g = self.int_col()
            gb = self.pick(5)
            stmt = stmt.group_by(g) if gb < 2 else stmt.group_by(sa.func.rollup(g, self.str_col())) if gb == 2 else stmt.group_by(sa.func.cube(g, self.str_col())) if gb == 3 else stmt.group_by(sa.func.grouping_sets(sa.tuple_(g), sa.tuple_(g, self.str_col())))
            if self.flag():
                stmt = stmt.having(sa.func.count() > self.pick(3))
        if o & 4:
            self.k("order_by")
            stmt = stmt.order_by(*[self.order_elem(d) for _ in range(1 + self.pick(2))])
        if o & 8:
            self.k("limit")
            lo = self.pick(9)
            if lo == 7:
                stmt = stmt.limit(sa.literal(2) + 1)
            elif lo == 8:
                stmt = stmt.limit(sa.literal_column("3")).offset(sa.bindparam(self.name("off"), 1))
            elif lo == 0:
                stmt = stmt.limit(self.pick(5))
            elif lo == 1:
                stmt = stmt.limit(3).offset(self.pick(4))
            elif lo == 2:
                stmt = stmt.offset(2)
            elif lo == 3:
                stmt = stmt.limit(sa.bindparam(self.name("lim"), 5)).offset(sa.literal(1) + 1)
            elif lo == 4:
                stmt = stmt.fetch(2, with_ties=self.flag(), percent=self.flag())
            elif lo == 5:
                stmt = stmt.fetch(3).offset(1)
            else:
                stmt = stmt.slice(1, 4)
        if o & 16:
            self.k("distinct")
            stmt = stmt.distinct()
        if o & 32 and d == 0:
            x = self.pick(8)
            if x == 0:
                self.k("for_update")
                stmt = stmt.with_for_update(nowait=self.flag(), read=self.flag(), skip_locked=self.flag(), key_share=self.flag())
            elif x == 1:
                self.k("for_update")
                tabs = [f for f in self.scope if isinstance(f, sa.Table)]
                if tabs and self.flag():
                    stmt = stmt.with_for_update(of=list(tabs[0].c)[0])
                elif tabs:
                    self.k("for_update_of_table")
                    stmt = stmt.with_for_update(of=tabs)
                else:
                    stmt = stmt.with_for_update()
            elif x == 2:
                self.k("hint")
                stmt = stmt.with_hint(self.scope[0], "INDEX(%(name)s ix)", ["oracle", "mysql", "mssql", "*"][self.pick(4)])
            elif x == 3:
                self.k("hint")
                stmt = stmt.with_statement_hint("OPTION (RECOMPILE)" if self.flag() else "/*+ X */")
            elif x == 4:
                self.k("prefix")
                stmt = stmt.prefix_with("SQL_NO_CACHE", dialect="mysql").suffix_with("-- end")
            elif x == 5:
                self.k("label_style")
                stmt = stmt.set_label_style([sa.LABEL_STYLE_TABLENAME_PLUS_COL, sa.LABEL_STYLE_NONE, sa.LABEL_STYLE_DISAMBIGUATE_ONLY][self.pick(3)])
            elif x == 6:
                self.k("distinct_on")
                from sqlalchemy.dialects.postgresql import distinct_on

                stmt = stmt.ext(distinct_on(self.int_col()))
            else:
                self.k("add_cte")
                c = sa.select(self.t2.c.id).cte(self.name("ac"))
                stmt = stmt.add_cte(c, nest_here=self.flag())
        self.scope = saved
        return stmt

    def setop(self, d):
        sa = self.sa
        saved = self.scope
        self.scope = [self.t1]
        a = sa.select(self.t1.c.id.label("id"), self.int_expr(d + 1).label("x"))
        self.scope = [self.t2]
        b = sa.select(self.t2.c.id, self.int_expr(d + 1))
        self.scope = saved
        if self.pick(4) == 0:
            a = a.order_by(self.t1.c.id).limit(2)
        fn = [sa.union, sa.union_all, sa.intersect, sa.except_, sa.intersect_all, sa.except_all][self.pick(6)]
        u = fn(a, b) if self.pick(3) else fn(a, b, sa.select(self.t3.c.id, self.t3.c.z))
        if self.flag():
            u = u.order_by("id" if self.flag() else u.selected_columns.x.desc())
        o = self.pick(4)
        if o == 1:
            u = u.limit(3)
        elif o == 2:
            u = u.limit(2).offset(1)
        elif o == 3:
            u = u.fetch(2)
        return u

    # -- DML
    def returning(self, stmt, t):
        o = self.pick(5)
        if o == 0:
            return stmt
        self.k("returning")
        if o == 1:
            return stmt.returning(t.c.id)
        if o == 2:
            return stmt.returning(t)
        if o == 3:
            saved, self.scope = self.scope, [t]
            e = self.int_expr(2).label("rx")
            self.scope = saved
            return stmt.returning(t.c.id, e)
        return stmt.returning(sa_literal_label(self.sa))

    def insert(self):
        sa = self.sa
        self.k("insert")
        t = [self.t1, self.t2, self.t3][self.pick(3)]
        fam = self.pick(5)
        ins_fn = sa.insert
        fam_owner = {1: "postgresql", 2: "sqlite", 3: "mysql"}.get(fam)
        if fam_owner is not None and self.owner not in (None, fam_owner):
            fam = 0
        elif fam_owner is not None:
            self.owner = fam_owner
        if fam == 1:
            from sqlalchemy.dialects.postgresql import insert as ins_fn

            self.k("upsert_pg")
        elif fam == 2:
            from sqlalchemy.dialects.sqlite import insert as ins_fn

            self.k("upsert_sqlite")
        elif fam == 3:
            from sqlalchemy.dialects.mysql import insert as ins_fn

            self.k("upsert_mysql")
        stmt = ins_fn(t)
        intcol = [c for c in t.c if c.name in ("x", "y", "z")][0]
        o = self.pick(7)
        if o == 0:
            stmt = stmt.values({intcol.name: 1, "s": "a"})
        elif o == 1:
            self.k("multivalues")
            stmt = stmt.values([{intcol.name: 1, "s": "a"}, {intcol.name: 2, "s": "b"}])
        elif o == 2:
            saved, self.scope = self.scope, []  # VALUES may not reference columns of any table
            stmt = stmt.values({intcol.name: self.int_expr(2), "s": sa.func.lower("X")})
            self.scope = saved
        elif o == 3:
            self.k("from_select")
            stmt = stmt.from_select([intcol.name, "s"], self.select(1, simple_cols=False).with_only_columns(self.t1.c.x, self.t1.c.s) if self.flag() else sa.select(self.t1.c.x, self.t1.c.s).where(self.t1.c.x > 1))
        elif o == 4:
            pass  # no values: all columns bound
        elif o == 5:
            self.k("scalar_subquery")
            stmt = stmt.values({intcol.name: sa.select(sa.func.max(self.t2.c.y)).scalar_subquery()})
        else:
            self.k("cte", "from_select")
            c = sa.select(self.t1.c.x, self.t1.c.s).where(self.t1.c.x < 5).cte(self.name("ic"))
            stmt = stmt.from_select([intcol.name, "s"], sa.select(c.c.x, c.c.s))
        if fam == 1 or fam == 2:
            u = self.pick(6)
            if u == 1:
                stmt = stmt.on_conflict_do_nothing()
            elif u == 2:
                stmt = stmt.on_conflict_do_nothing(index_elements=[t.c.id] if self.flag() else ["id"])
            elif u == 3:
                stmt = stmt.on_conflict_do_update(index_elements=[t.c.id], set_={"s": stmt.excluded.s})
            elif u == 4:
                stmt = stmt.on_conflict_do_update(index_elements=["id"], index_where=t.c.id > 0, set_={intcol.name: stmt.excluded[intcol.name] + 1, "s": "k"}, where=t.c.s != stmt.excluded.s)
            elif u == 5 and fam == 1:
                stmt = stmt.on_conflict_do_update(constraint=t.primary_key if self.flag() else "t_pkey", set_={"s": sa.func.coalesce(stmt.excluded.s, t.c.s)})
        elif fam == 3:
            u = self.pick(4)
            if u == 1:
                stmt = stmt.on_duplicate_key_update(s=stmt.inserted.s)
            elif u == 2:
                stmt = stmt.on_duplicate_key_update({"s": "q", intcol.name: stmt.inserted[intcol.name] + 1})
            elif u == 3:
                stmt = stmt.on_duplicate_key_update([("s", sa.func.concat(stmt.inserted.s, "x")), (intcol.name, 5)])
        stmt = self.returning(stmt, t)
        x = self.pick(6)
        if x == 1:
            stmt = stmt.inline()
        elif x == 2:
            stmt = stmt.prefix_with("OR REPLACE", dialect="sqlite")
        elif x == 3:
            stmt = stmt.return_defaults()
        return stmt

    def update(self):
        sa = self.sa
        self.k("update")
        t = self.t1
        stmt = sa.update(t)
        self.scope = [t]
        o = self.pick(7)
        if o == 0:
            stmt = stmt.values(x=5)
        elif o == 1:
            stmt = stmt.values(x=self.int_expr(1), s=self.str_expr(1))
        elif o == 2:
            stmt = stmt.values({t.c.x: t.c.x + 1})
        elif o == 3:
            self.k("ordered_values")
            stmt = stmt.ordered_values((t.c.s, "a"), (t.c.x, t.c.x * 2))
        elif o == 4:
            self.k("scalar_subquery")
            stmt = stmt.values(x=sa.select(sa.func.max(self.t2.c.y)).where(self.t2.c.t1_id == t.c.id).scalar_subquery())
        elif o == 5:
            self.k("multitable")
            stmt = stmt.values({t.c.x: self.t2.c.y, self.t2.c.s: "m"} if self.flag() else {t.c.x: self.t2.c.y}).where(self.t2.c.t1_id == t.c.id)
        else:
            pass
        w = self.pick(5)
        if w == 1:
            stmt = stmt.where(self.bool_expr(1))
        elif w == 2:
            self.k("multitable")
            stmt = stmt.where(t.c.id == self.t2.c.t1_id).where(self.t2.c.y > 1)
        elif w == 3:
            self.k("cte")
            c = sa.select(self.t2.c.t1_id).where(self.t2.c.y > 3).cte(self.name("uc"))
            stmt = stmt.where(t.c.id.in_(sa.select(c.c.t1_id)))
        elif w == 4:
            self.k("exists")
            stmt = stmt.where(self.exists(1))
        stmt = self.returning(stmt, t)
        x = self.pick(5)
        if x == 1:
            stmt = stmt.with_dialect_options(mysql_limit=5)
        elif x == 2:
            stmt = stmt.prefix_with("LOW_PRIORITY", dialect="mysql")
        elif x == 3:
            stmt = stmt.with_hint("WITH (PAGLOCK)", dialect_name="mssql")
        return stmt

    def delete(self):
        sa = self.sa
        self.k("delete")
        t = [self.t1, self.t2][self.pick(2)]
        self.scope = [t]
        stmt = sa.delete(t)
        w = self.pick(5)
        if w == 1:
            stmt = stmt.where(self.bool_expr(1))
        elif w == 2:
            self.k("multitable")
            other = self.t2 if t is self.t1 else self.t1
            stmt = stmt.where(list(t.c)[0] == list(other.c)[0]).where(list(other.c)[1] > 1)
        elif w == 3:
            self.k("in", "subquery")
            stmt = stmt.where(list(t.c)[0].in_(sa.select(self.t3.c.z)))
        elif w == 4:
            self.k("cte")
            c = sa.select(self.t3.c.z).cte(self.name("dc"))
            stmt = stmt.where(list(t.c)[0].in_(sa.select(c.c.z)))
        stmt = self.returning(stmt, t)
        x = self.pick(4)
        if x == 1:
            stmt = stmt.with_dialect_options(mysql_limit=2)
        elif x == 2:
            stmt = stmt.with_hint("WITH (TABLOCK)", dialect_name="mssql")
        return stmt

    def dml_cte_select(self):
        """data-modifying CTE used by a SELECT / INSERT"""
        sa = self.sa
        self.k("cte", "dml_cte")
        o = self.pick(3)
        if o == 0:
            c = sa.delete(self.t2).where(self.t2.c.y < 0).returning(self.t2.c.id, self.t2.c.y).cte(self.name("del"))
            return sa.select(c.c.id, c.c.y)
        if o == 1:
            c = sa.update(self.t1).values(x=1).returning(self.t1.c.id).cte(self.name("upd"))
            return sa.select(sa.func.count()).select_from(c)
        c = sa.insert(self.t2).values(y=1).returning(self.t2.c.id).cte(self.name("ins"))
        return sa.insert(self.t3).from_select(["z"], sa.select(c.c.id))

    # -- DDL
    def ddl(self):
        sa = self.sa
        from sqlalchemy import schema as S

        md = sa.MetaData()
        self.k("ddl")
        cols = [sa.Column("id", sa.Integer, primary_key=True)]
        idopt = self.pick(6)
        if idopt == 1:
            cols = [sa.Column("id", sa.Integer, sa.Identity(start=1 + self.pick(3), increment=1 + self.pick(2)), primary_key=True)]
            self.k("identity")
        elif idopt == 2:
            cols = [sa.Column("id", sa.BigInteger, sa.Identity(always=self.flag(), minvalue=1, maxvalue=10**6, cycle=self.flag(), cache=self.pick(20) or None), primary_key=True)]
            self.k("identity")
        elif idopt == 3:
            cols = [sa.Column("id", sa.Integer, primary_key=True, autoincrement=False), sa.Column("id2", sa.Integer, primary_key=True)]
        elif idopt == 4:
            cols = [sa.Column("id", sa.Integer, sa.Sequence(self.name("seq"), start=1, increment=2 if self.flag() else None), primary_key=True)]
            self.k("sequence")
        elif idopt == 5:
            cols = [sa.Column("id", sa.Uuid, primary_key=True)]
        types = [
            lambda: sa.String(30),
            lambda: sa.Text(),
            lambda: sa.Numeric(10, 2),
            lambda: sa.Float(53),
            lambda: sa.Boolean(create_constraint=self.flag()),
            lambda: sa.Date(),
            lambda: sa.DateTime(timezone=self.flag()),
            lambda: sa.Time(),
            lambda: sa.Interval(),
            lambda: sa.LargeBinary(),
            lambda: sa.JSON(),
            lambda: sa.Enum("a", "b", name=self.name("en"), create_constraint=self.flag()),
            lambda: sa.Uuid(),
            lambda: sa.Unicode(20),
            lambda: sa.SmallInteger(),
            lambda: sa.Double(),
            lambda: sa.String(10, collation="C"),
            lambda: sa.Integer().with_variant(sa.BigInteger(), "postgresql", "mysql"),
            lambda: sa.ARRAY(sa.Integer),
            lambda: sa.TIMESTAMP(timezone=True),
            lambda: sa.PickleType(),
            lambda: sa.String(),
        ]
        ncol = 1 + self.pick(4)
        for i in range(ncol):
            kw = {}
            o = self.pick(16)
            if o & 1:
                kw["nullable"] = False
            if o & 2:
                sd = self.pick(5)
                kw["server_default"] = ["x", sa.text("0"), sa.func.now(), sa.literal_column("CURRENT_TIMESTAMP"), sa.text("'a'")][sd]
            if o & 4:
                kw["comment"] = ["a col", "it's", "100%", ""][self.pick(4)]
            if o & 8:
                kw["unique" if self.flag() else "index"] = True
            if self.pick(3) == 0:
                typ = self.dialect_type()
            else:
                typ = types[self.pick(len(types))]()
            cols.append(sa.Column(f"c{i}", typ, **kw))
        if self.pick(4) == 0:
            self.k("computed")
            cols.append(sa.Column("comp", sa.Integer, sa.Computed("c0 + 1" if self.flag() else sa.literal_column("id") * 2, persisted=[None, True, False][self.pick(3)])))
        args = []
        tkw = {}
        o = self.pick(64)
        if o & 1:
            self.k("constraint")
            args.append(sa.UniqueConstraint("c0", name=self.name("uq") if self.flag() else None))
        if o & 2:
            self.k("constraint")
            args.append(sa.CheckConstraint("id > 0" if self.flag() else sa.column("id") > 0, name=self.name("ck") if self.flag() else None))
        if o & 4:
            self.k("constraint", "fk")
            other = sa.Table("parent", md, sa.Column("pid", sa.Integer, primary_key=True), schema="sch" if self.flag() else None)
            fkw = {}
            f = self.pick(16)
            if f & 1:
                fkw["ondelete"] = ["CASCADE", "SET NULL", "RESTRICT"][self.pick(3)]
            if f & 2:
                fkw["onupdate"] = "CASCADE"
            if f & 4:
                fkw["deferrable"] = True
                fkw["initially"] = "DEFERRED"
            if f & 8:
                fkw["name"] = self.name("fk")
            cols.append(sa.Column("parent_id", sa.Integer))
            args.append(sa.ForeignKeyConstraint(["parent_id"], [other.c.pid], **fkw))
        if o & 8:
            tkw["comment"] = "table's comment"
        if o & 16:
            tkw["schema"] = "sch"
        if o & 32:
            dk = self.pick(8)
            tkw.update(
                [
                    {"mysql_engine": "InnoDB", "mysql_charset": "utf8mb4"},
                    {"sqlite_with_rowid": False},
                    {"sqlite_strict": True},
                    {"postgresql_partition_by": "RANGE (id)"},
                    {"postgresql_with_oids": False} if False else {"postgresql_tablespace": "ts1"},
                    {"prefixes": ["TEMPORARY"]},
                    {"oracle_compress": True},
                    {"mysql_auto_increment": "100", "mariadb_engine": "Aria"},
                ][dk]
            )
        t = sa.Table(self.name("dt"), md, *cols, *args, **tkw)
        ixs = []
        if self.pick(3) == 0:
            self.k("index")
            io = self.pick(8)
            if io == 0:
                ixs.append(sa.Index(self.name("ix"), t.c.c0))
            elif io == 1:
                ixs.append(sa.Index(self.name("ix"), t.c.id, t.c.c0, unique=True))
            elif io == 2:
                ixs.append(sa.Index(self.name("ix"), sa.func.lower(t.c.c0)))
            elif io == 3:
                ixs.append(sa.Index(self.name("ix"), t.c.c0.desc(), postgresql_where=t.c.id > 5, sqlite_where=t.c.id > 5))
            elif io == 4:
                ixs.append(sa.Index(self.name("ix"), t.c.c0, postgresql_using="gin", postgresql_include=["id"], postgresql_concurrently=True))
            elif io == 5:
                ixs.append(sa.Index(self.name("ix"), t.c.c0, mysql_length=10, mysql_prefix="FULLTEXT", mariadb_length={"c0": 4}))
            elif io == 6:
                ixs.append(sa.Index(self.name("ix"), t.c.c0, mssql_clustered=True, mssql_include=["id"], mssql_where=t.c.id > 1))
            else:
                ixs.append(sa.Index(self.name("ix"), t.c.c0, oracle_bitmap=True, oracle_compress=1))
        what = self.pick(18)
        if what == 0:
            return S.CreateTable(t, if_not_exists=self.flag())
        if what == 1:
            return S.DropTable(t, if_exists=self.flag())
        if what == 2:
            ix = ixs[0] if ixs else sa.Index(self.name("ix"), t.c.id)
            return S.CreateIndex(ix, if_not_exists=self.flag())
        if what == 3:
            ix = ixs[0] if ixs else sa.Index(self.name("ix"), t.c.id)
            return S.DropIndex(ix, if_exists=self.flag())
        if what == 4:
            cons = [c for c in t.constraints if not isinstance(c, sa.PrimaryKeyConstraint)]
            c = cons[self.pick(len(cons))] if cons else t.primary_key
            if c.name is None:
                c.name = self.name("cn")
            return S.AddConstraint(c)
        if what == 5:
            cons = [c for c in t.constraints if not isinstance(c, sa.PrimaryKeyConstraint)]
            c = cons[self.pick(len(cons))] if cons else t.primary_key
            if c.name is None:
                c.name = self.name("cn")
            return S.DropConstraint(c, cascade=self.flag(), if_exists=self.flag())
        if what == 6:
            self.k("sequence")
            return S.CreateSequence(sa.Sequence(self.name("sq"), start=1 + self.pick(3), increment=self.pick(3) or None, minvalue=1 if self.flag() else None, cycle=self.flag() or None, schema="sch" if self.flag() else None, data_type=sa.BigInteger if self.flag() else None), if_not_exists=self.flag())
        if what == 7:
            self.k("sequence")
            return S.DropSequence(sa.Sequence(self.name("sq")), if_exists=self.flag())
        if what == 8:
            return S.CreateSchema("sch", if_not_exists=self.flag())
        if what == 9:
            return S.DropSchema("sch", cascade=self.flag(), if_exists=self.flag())
        if what == 10:
            t.comment = t.comment or "c"
            return S.SetTableComment(t)
        if what == 11:
            return S.DropTableComment(t)
        if what == 12:
            col = t.c.c0
            col.comment = col.comment or "cc"
            return S.SetColumnComment(col)
        if what == 13:
            self.k("create_table_as")
            return S.CreateTableAs(self.select(1), self.name("cta"), schema="sch" if self.flag() else None, temporary=self.flag(), if_not_exists=self.flag())
        if what == 14:
            self.k("create_view")
            return S.CreateView(self.select(1), self.name("vw"), schema="sch" if self.flag() else None, temporary=self.flag(), or_replace=self.flag(), materialized=self.flag())
        if what == 15:
            return S.CreateColumn(t.c.c0)
        if what == 16:
            self.k("create_view")
            return S.DropView(S.CreateView(sa.select(self.t1.c.id), self.name("vw")).table)
        return S.CreateTable(t, include_foreign_key_constraints=[] if self.flag() else None)

    def orm(self):
        sa = self.sa
        from sqlalchemy.orm import aliased, contains_eager, joinedload, selectinload, subqueryload, with_loader_criteria, with_polymorphic, Bundle, defer, load_only, undefer

        fam = orm_family()
        A, A2, OB = fam["A"], fam["A2"], fam["B"]
        self.k("orm")
        self.scope = [A.__table__]
        o = self.pick(18)
        if o == 0:
            stmt = sa.select(A)
        elif o == 1:
            self.k("join")
            stmt = sa.select(A).join(A.bs)
        elif o == 2:
            self.k("join")
            stmt = sa.select(A, OB).join_from(A, OB, isouter=self.flag())
        elif o == 3:
            self.k("alias")
            a2 = aliased(A, name="a_al")
            stmt = sa.select(A, a2).join(a2, a2.id == A.x)
        elif o == 4:
            self.k("joinedload")
            stmt = sa.select(A).options(joinedload(A.bs, innerjoin=self.flag()))
        elif o == 5:
            self.k("loader_option")
            stmt = sa.select(A).options([selectinload(A.bs), subqueryload(A.bs), defer(A.s), load_only(A.x), undefer(A.s)][self.pick(5)])
        elif o == 6:
            self.k("relationship_criteria")
            stmt = sa.select(A).where(A.bs.any(OB.y > 1) if self.flag() else ~A.bs.any())
        elif o == 7:
            self.k("relationship_criteria")
            stmt = sa.select(OB).where(OB.a.has(A.x == 1) if self.flag() else OB.a == None)  # noqa: E711
        elif o == 8:
            self.k("with_polymorphic")
            wp = with_polymorphic(A, [A2] if self.flag() else "*")
            stmt = sa.select(wp).where(wp.A2.extra > 1)
        elif o == 9:
            self.k("inheritance")
            stmt = sa.select(A2).where(A2.x > 0)
        elif o == 10:
            self.k("with_loader_criteria")
            stmt = sa.select(A).join(A.bs).options(with_loader_criteria(OB, OB.y > 2))
        elif o == 11:
            self.k("bundle")
            stmt = sa.select(Bundle("bn", A.id, A.x), sa.func.count(OB.id)).join(A.bs).group_by(A.id, A.x)
        elif o == 12:
            self.k("update")
            stmt = sa.update(A).where(A.x > 1).values(s=self.str_expr(2))
            return self.returning(stmt, A.__table__) if self.flag() else stmt
        elif o == 13:
            self.k("delete")
            stmt = sa.delete(A2).where(A2.extra == 1)
            return stmt
        elif o == 14:
            self.k("insert")
            stmt = sa.insert(A).values(x=1, s="a")
            return stmt.returning(A) if self.flag() else stmt
        elif o == 15:
            self.k("joinedload", "contains_eager")
            stmt = sa.select(A).join(A.bs).options(contains_eager(A.bs))
        elif o == 16:
            self.k("subquery", "alias")
            sq = sa.select(A).where(A.x > 1).subquery()
            asq = aliased(A, sq)
            stmt = sa.select(asq).join(asq.bs)
        else:
            self.k("from_statement")
            stmt = sa.select(A).from_statement(sa.text("select * from oa"))
            return stmt
        c = self.pick(32)
        if c & 1:
            stmt = stmt.where(self.bool_expr(1))
        if c & 2:
            self.k("order_by")
            stmt = stmt.order_by(A.x.desc(), A.id)
        if c & 4:
            self.k("limit")
            lo = self.pick(4)
            stmt = stmt.limit(2) if lo == 0 else stmt.limit(2).offset(1) if lo == 1 else stmt.offset(3) if lo == 2 else stmt.fetch(2)
        if c & 8:
            self.k("distinct")
            stmt = stmt.distinct()
        if c & 16:
            self.k("for_update")
            if self.flag():
                self.k("for_update_of_table")
                stmt = stmt.with_for_update(of=A)
            else:
                stmt = stmt.with_for_update()
        return stmt

    def statement(self):
        fam = self.pick(12)
        if fam >= 10:
            return "orm", self.orm()
        if fam in (0, 1, 2):
            self.k("select")
            return "select", self.select(0)
        if fam == 3:
            self.k("select", "setop")
            return "select", self.setop(0)
        if fam == 4:
            return "dml", self.insert()
        if fam == 5:
            return "dml", self.update()
        if fam == 6:
            return "dml", self.delete()
        if fam == 7:
            return "dml", self.dml_cte_select()
        return "ddl", self.ddl()


def dialect_types():
    """dialect-specific types with documented constructor arguments (compiled on every dialect)"""
    import sqlalchemy as sa
    from sqlalchemy.dialects import mssql, mysql, oracle, postgresql as pg, sqlite

    return {
        "postgresql": [lambda: pg.INET(), lambda: pg.CIDR(), lambda: pg.CITEXT(), lambda: pg.UUID(), lambda: pg.BIT(8), lambda: pg.BIT(varying=True), lambda: pg.MACADDR(), lambda: pg.MONEY(), lambda: pg.OID(), lambda: pg.REGCLASS(), lambda: pg.TSVECTOR(), lambda: pg.TSQUERY(), lambda: pg.DOUBLE_PRECISION(), lambda: pg.TIMESTAMP(timezone=True, precision=3), lambda: pg.TIME(precision=2), lambda: pg.BYTEA(), lambda: pg.INTERVAL(fields="YEAR TO MONTH"), lambda: pg.INTERVAL(precision=3), lambda: pg.ARRAY(sa.String, dimensions=2), lambda: pg.ENUM("a", "b", name="pe"), lambda: pg.DOMAIN("dom", sa.Integer, check="VALUE > 0"), lambda: pg.HSTORE(), lambda: pg.INT4RANGE(), lambda: pg.DATERANGE(), lambda: pg.INT4MULTIRANGE(), lambda: pg.TSTZRANGE(), lambda: pg.JSON(), lambda: pg.JSONB(), lambda: pg.JSONPATH(), lambda: pg.ARRAY(pg.ENUM("x", "y", name="pe2"))],
        "mysql": [lambda: mysql.BIT(4), lambda: mysql.ENUM("a", "b"), lambda: mysql.SET("a", "b"), lambda: mysql.TINYINT(1), lambda: mysql.MEDIUMINT(unsigned=True), lambda: mysql.YEAR(), lambda: mysql.LONGTEXT(charset="utf8mb4", collation="utf8mb4_bin"), lambda: mysql.NVARCHAR(10), lambda: mysql.VARCHAR(10, national=True), lambda: mysql.DOUBLE(precision=10, scale=2, asdecimal=True), lambda: mysql.DECIMAL(10, 2, unsigned=True, zerofill=True), lambda: mysql.TIME(fsp=3), lambda: mysql.DATETIME(fsp=6), lambda: mysql.TIMESTAMP(fsp=2), lambda: mysql.TINYBLOB(), lambda: mysql.VARBINARY(10), lambda: mysql.JSON(), lambda: mysql.INET4(), lambda: mysql.INET6(), lambda: mysql.TEXT(100), lambda: mysql.INTEGER(display_width=4, zerofill=True)],
        "mssql": [lambda: mssql.TINYINT(), lambda: mssql.NVARCHAR(None), lambda: mssql.DATETIME2(precision=3), lambda: mssql.DATETIMEOFFSET(precision=2), lambda: mssql.SMALLDATETIME(), lambda: mssql.BIT(), lambda: mssql.IMAGE(), lambda: mssql.ROWVERSION(), lambda: mssql.TIMESTAMP(convert_int=True), lambda: mssql.MONEY(), lambda: mssql.SMALLMONEY(), lambda: mssql.UNIQUEIDENTIFIER(as_uuid=False), lambda: mssql.SQL_VARIANT(), lambda: mssql.XML(), lambda: mssql.NTEXT(), lambda: mssql.VARBINARY("max"), lambda: mssql.VARBINARY("max", filestream=True), lambda: mssql.JSON(), lambda: mssql.TIME(precision=3), lambda: mssql.REAL(), lambda: mssql.DOUBLE_PRECISION()],
        "oracle": [lambda: oracle.NUMBER(10, 2), lambda: oracle.NUMBER(), lambda: oracle.BFILE(), lambda: oracle.CLOB(), lambda: oracle.NCLOB(), lambda: oracle.TIMESTAMP(timezone=True), lambda: oracle.TIMESTAMP(local_timezone=True), lambda: oracle.RAW(16), lambda: oracle.FLOAT(binary_precision=53), lambda: oracle.BINARY_DOUBLE(), lambda: oracle.BINARY_FLOAT(), lambda: oracle.LONG(), lambda: oracle.INTERVAL(day_precision=2, second_precision=3), lambda: oracle.VARCHAR2(10), lambda: oracle.NVARCHAR2(10), lambda: oracle.ROWID(), lambda: oracle.BOOLEAN(), lambda: oracle.VECTOR(dim=3, storage_format=oracle.VectorStorageFormat.FLOAT32), lambda: oracle.JSON()],
        "sqlite": [lambda: sqlite.JSON(), lambda: sqlite.JSONB(), lambda: sqlite.DATETIME(truncate_microseconds=True), lambda: sqlite.DATE(storage_format="%(year)04d%(month)02d%(day)02d"), lambda: sqlite.TIME()],
    }


_ORM = {}


def orm_family():
    """fixed, immutable mapped family (built once per process)"""
    if not _ORM:
        import sqlalchemy as sa
        from sqlalchemy.orm import declarative_base, relationship

        Base = declarative_base()

        class A(Base):
            __tablename__ = "oa"
            id = sa.Column(sa.Integer, primary_key=True)
            x = sa.Column(sa.Integer)
            s = sa.Column(sa.String(20))
            kind = sa.Column(sa.String(10))
            bs = relationship("OB", back_populates="a", order_by="OB.id")
            __mapper_args__ = {"polymorphic_on": kind, "polymorphic_identity": "a"}

        class A2(A):
            __tablename__ = "oa2"
            id = sa.Column(sa.ForeignKey("oa.id"), primary_key=True)
            extra = sa.Column(sa.Integer)
            __mapper_args__ = {"polymorphic_identity": "a2"}

        class OB(Base):
            __tablename__ = "ob"
            id = sa.Column(sa.Integer, primary_key=True)
            a_id = sa.Column(sa.ForeignKey("oa.id"))
            y = sa.Column(sa.Integer)
            a = relationship("A", back_populates="bs")

        _ORM.update(A=A, A2=A2, B=OB)
    return _ORM


def named_construct(name):
    """hand-written minimal constructs of the confirmed findings (pinned replays; independent of the choice encoding)"""
    import sqlalchemy as sa
    from sqlalchemy.dialects import sqlite

    md = sa.MetaData()
    t1 = sa.Table("t1", md, sa.Column("id", sa.Integer, primary_key=True), sa.Column("x", sa.Integer))
    t2 = sa.Table("t2", md, sa.Column("id", sa.Integer, primary_key=True), sa.Column("t1_id", sa.Integer), sa.Column("y", sa.Integer))
    if name == "multitable_delete":
        return "dml", sa.delete(t1).where(t1.c.id == t2.c.t1_id)
    if name == "multitable_update":
        return "dml", sa.update(t1).values(x=t2.c.y).where(t2.c.t1_id == t1.c.id)
    if name == "orm_limit_for_update_of_class":
        A = orm_family()["A"]
        return "orm", sa.select(A).limit(2).with_for_update(of=A)
    if name == "join_textual_subquery":
        tx = sa.text("select 1 as id").columns(sa.column("id", sa.Integer)).subquery("tx")
        return "select", sa.select(t1.c.id).select_from(t1.outerjoin(tx, t1.c.id == tx.c.id))
    if name == "mssql_varbinary_max":
        from sqlalchemy.dialects import mssql
        from sqlalchemy.schema import CreateTable

        return "ddl", CreateTable(sa.Table("tv", sa.MetaData(), sa.Column("data", mssql.VARBINARY("max"))))
    if name == "literal_execute_escaped_name":
        return "esc", sa.select(sa.bindparam("x y", 5, literal_execute=True))
    if name == "limit_for_update_of_table":
        return "select", sa.select(t1.c.id).order_by(t1.c.id).limit(2).offset(1).with_for_update(of=t1)
    raise HarnessError(name)


ESC_COLS = [("a b", int), ("x.y", str), ("p[0]", int), ("q(r)", str), ("pct%", int), ("c:d", int)]  # escaped: a_b x_y p_0_ qArZ pctP cCd (collision free)
ESC_BIND_NAMES = ["my param", "b:1", "v%1", "z(1)", "k.1", "arr[2]"]  # escaped: my_param bC1 vP1 zA1Z k_1 arr_2_


class EscB(B):
    """second table family: column names and explicit bindparam() names that need bind-name escaping"""

    def __init__(self, choices, pinned=False, ctx=None):
        super().__init__(choices)
        sa = self.sa
        self.pinned = pinned
        self.ctx = ctx
        md = sa.MetaData()
        self.te = sa.Table("te", md, sa.Column("id", sa.Integer, primary_key=True), *[sa.Column(n, sa.Integer if t is int else sa.String(30)) for n, t in ESC_COLS])
        self.te2 = sa.Table("t e2", md, sa.Column("id", sa.Integer, primary_key=True), sa.Column("te.id", sa.Integer), sa.Column("val (x)", sa.Integer))
        self.used_binds = set()

    def ecol(self, pytype=None):
        names = [n for n, t in ESC_COLS if pytype is None or t is pytype]
        return self.te.c[names[self.pick(len(names))]]

    def ebind(self, value, **kw):
        """explicit bindparam with a name needing escaping (each name once per statement)"""
        sa = self.sa
        free = [n for n in ESC_BIND_NAMES if n not in self.used_binds] or [self.name("late p")]
        n = free[self.pick(len(free))]
        self.used_binds.add(n)
        self.k("explicit_escaped_bind")
        return sa.bindparam(n, value, **kw)

    def evalue(self, col):
        sa = self.sa
        is_int = col.type.python_type is int
        o = self.pick(6)
        if o == 0:
            return 7 if is_int else "v"
        if o == 1:
            return self.ebind(3 if is_int else "w")
        if o == 2:
            return sa.literal(1) + self.ebind(2) if is_int else sa.func.lower(self.ebind("W"))
        if o == 3:
            return sa.bindparam(None, 4 if is_int else "u")
        if o == 4:
            # repaired in /repo (ef607b7): generated again
            self.k("literal_execute_escaped")
            return self.ebind(5 if is_int else "le", literal_execute=True)
        return sa.null()

    def ecrit(self):
        sa = self.sa
        c = self.ecol()
        is_int = c.type.python_type is int
        o = self.pick(9)
        self.k("escaped_where")
        if o == 0:
            return c == (5 if is_int else "s")
        if o == 1:
            self.k("in")
            return c.in_([1, 2, 3] if is_int else ["a", "b"])
        if o == 2:
            self.k("in")
            return c.in_(self.ebind([1, 2] if is_int else ["a"], expanding=True))
        if o == 3:
            return c == self.ebind(9 if is_int else "e")
        if o == 4:
            return c.between(1, 5) if is_int else c.like("a%")
        if o == 5:
            self.k("in")
            return c.not_in([]) if self.flag() else c.in_([None, 1] if is_int else [None, "n"])
        if o == 6:
            return sa.and_(self.te.c["a b"] > self.te.c["p[0]"], self.te.c["x.y"] != self.te.c["q(r)"])
        if o == 7:
            self.k("tuple", "in")
            return sa.tuple_(self.te.c["a b"], self.te.c["x.y"]).in_([(1, "a"), (2, "b")])
        self.k("subquery", "in")
        return c.in_(sa.select(self.te2.c["val (x)" if is_int else "te.id"]).where(self.te2.c["te.id"] == self.ebind(1)))

    def ereturning(self, stmt):
        o = self.pick(4)
        if o == 0:
            return stmt
        self.k("returning")
        if o == 1:
            return stmt.returning(self.te.c.id, self.ecol())
        if o == 2:
            return stmt.returning(self.te)
        return stmt.returning((self.te.c["a b"] + 1).label("lbl (1)"), self.te.c["c:d"])

    def statement(self):
        sa = self.sa
        te = self.te
        self.k("escaped_names")
        self.executemany = False
        fam = self.pick(8)
        if fam in (0, 1, 2):
            self.k("insert")
            ins = sa.insert
            want_many = self.flag()  # drawn early so that short choice lists reach it
            up = self.pick(6)
            owner = {1: "postgresql", 2: "sqlite", 3: "mysql"}.get(up)
            if owner == "postgresql":
                from sqlalchemy.dialects.postgresql import insert as ins
            elif owner == "sqlite":
                from sqlalchemy.dialects.sqlite import insert as ins
            elif owner == "mysql":
                from sqlalchemy.dialects.mysql import insert as ins
            self.owner = owner
            stmt = ins(te)
            ncols = 1 + self.pick(len(ESC_COLS))
            start = self.pick(len(ESC_COLS))
            cols = [te.c[ESC_COLS[(start + i) % len(ESC_COLS)][0]] for i in range(ncols)]
            o = self.pick(6)
            if o == 0:
                stmt = stmt.values({c.name: self.evalue(c) for c in cols})
            elif o == 1:
                stmt = stmt.values({c: self.evalue(c) for c in cols})
            elif o == 2:
                self.k("multivalues")
                stmt = stmt.values([{c.name: (1 if c.type.python_type is int else "a") for c in cols}, {c.name: (2 if c.type.python_type is int else "b") for c in cols}])
            elif o == 3:
                pass  # all columns bound, names taken from the column names
            elif o == 4:
                self.k("from_select")
                stmt = stmt.from_select([c.name for c in cols[:2]], sa.select(self.te2.c["val (x)"], self.te2.c["te.id"]).where(self.te2.c["te.id"] > self.ebind(0)) if len(cols) >= 2 else sa.select(self.te2.c["val (x)"]))
            else:
                stmt = stmt.values(**{}) if False else stmt.values({cols[0].name: self.evalue(cols[0])})
            if owner in ("postgresql", "sqlite"):
                self.k("upsert_" + ("pg" if owner == "postgresql" else "sqlite"))
                stmt = stmt.on_conflict_do_update(index_elements=[te.c.id], set_={cols[0].name: stmt.excluded[cols[0].name], "c:d": self.ebind(1)}, where=te.c["pct%"] > self.ebind(0))
            elif owner == "mysql":
                self.k("upsert_mysql")
                stmt = stmt.on_duplicate_key_update({cols[0].name: stmt.inserted[cols[0].name], "c:d": 5})
            stmt = self.ereturning(stmt)
            if o in (0, 1, 3, 5) and want_many:
                self.k("executemany")
                self.executemany = True
            return "esc", stmt
        if fam in (3, 4):
            self.k("update")
            n = 1 + self.pick(3)
            cols = [self.ecol() for _ in range(n)]
            vals = {}
            for c in cols:
                vals[c if self.flag() else c.name] = (c + 1 if c.type.python_type is int and self.flag() else self.evalue(c))
            stmt = sa.update(te).values(vals)
            for _ in range(self.pick(3)):
                stmt = stmt.where(self.ecrit())
            if self.pick(4) == 0:
                self.k("multitable")
                stmt = stmt.where(self.te2.c["te.id"] == te.c.id).values({te.c["a b"]: self.te2.c["val (x)"]})
            return "esc", self.ereturning(stmt)
        if fam == 5:
            self.k("delete")
            stmt = sa.delete(te)
            for _ in range(1 + self.pick(2)):
                stmt = stmt.where(self.ecrit())
            return "esc", self.ereturning(stmt)
        self.k("select")
        stmt = sa.select(te.c.id, self.ecol(), (self.ecol(int) + self.ebind(1)).label("sum (1)"))
        for _ in range(1 + self.pick(3)):
            stmt = stmt.where(self.ecrit())
        o = self.pick(8)
        if o & 1:
            self.k("order_by")
            stmt = stmt.order_by(self.ecol().desc())
        if o & 2:
            self.k("limit")
            stmt = stmt.limit(self.ebind(5)).offset(2) if self.flag() else stmt.limit(3)
        if o & 4:
            self.k("join")
            stmt = stmt.join(self.te2, self.te2.c["te.id"] == te.c.id).where(self.te2.c["val (x)"] > 0)
        return "esc", stmt


class CteB(B):
    """third family: ONE shared CTE object (plain / nesting / recursive with union()/union_all() / nesting+recursive; optionally
    aliased or attached with add_cte(nest_here=True)) referenced from 1-3 sibling scopes of one statement and from nested scopes
    of different depth"""

    def make_cte(self):
        sa = self.sa
        t1 = self.t1
        o = self.pick(6)
        nesting = o in (1, 3, 5)
        name = ["counter", "c_te", "tree"][self.pick(3)]
        if o in (0, 1):
            self.k("cte", "nesting_cte" if nesting else "plain_cte")
            c = sa.select(t1.c.id.label("n"), t1.c.x.label("x")).where(t1.c.x > self.pick(5)).cte(name, nesting=nesting)
        else:
            self.k("cte", "recursive", "nesting_recursive_cte" if nesting else "recursive_cte")
            base = sa.select(sa.literal(1).label("n"), sa.literal(0).label("x")).cte(name, recursive=True, nesting=nesting)
            step = sa.select(base.c.n + 1, base.c.x + base.c.n).where(base.c.n < 5 + self.pick(3))
            c = base.union_all(step) if o in (2, 3) else base.union(step)
        if self.pick(4) == 0:
            self.k("cte_alias")
            return c, c.alias(self.name("ca"))
        return c, c

    def ref_scope(self, ref, depth):
        """one scope referencing the CTE: returns ('col', expr) | ('where', criterion) | ('from', fromclause)"""
        sa = self.sa
        t1 = self.t1
        o = self.pick(8)
        inner = sa.select(ref.c.n).where(ref.c.n > self.pick(4))
        if depth > 0 and self.flag():
            # one more level of nesting before the reference
            self.k("deeper_scope")
            sq = sa.select(ref.c.n, ref.c.x).where(ref.c.x >= 0).subquery(self.name("dq"))
            inner = sa.select(sq.c.n).where(sq.c.n > 1)
        if o == 0:
            self.k("scalar_subquery")
            return "col", sa.select(sa.func.max(inner.subquery(self.name("m")).c.n)).scalar_subquery().label(self.name("sc"))
        if o == 1:
            self.k("scalar_subquery")
            return "col", sa.select(sa.func.count()).select_from(ref).scalar_subquery().label(self.name("sc"))
        if o == 2:
            self.k("exists")
            return "where", sa.exists().where(ref.c.n == t1.c.id)
        if o == 3:
            self.k("in", "subquery")
            return "where", t1.c.id.in_(inner)
        if o == 4:
            self.k("subquery")
            return "from", inner.subquery(self.name("fq"))
        if o == 5:
            self.k("enclosing_cte")
            return "from", sa.select(ref.c.n.label("n")).where(ref.c.x < 100).cte(self.name("outer"), nesting=self.flag())
        if o == 6:
            self.k("lateral")
            return "from", sa.select(ref.c.n.label("n")).where(ref.c.n == t1.c.id).lateral(self.name("lt"))
        self.k("any_all")
        return "where", t1.c.x == sa.any_(sa.select(ref.c.n).scalar_subquery())

    def statement(self):
        sa = self.sa
        t1 = self.t1
        self.k("cte_scopes")
        c, ref = self.make_cte()
        nscopes = 1 + self.pick(3)
        self.k(f"sibling_scopes={nscopes}")
        cols, crit, froms = [t1.c.id], [], []
        for i in range(nscopes):
            kind, obj = self.ref_scope(ref, self.pick(2))
            (cols if kind == "col" else crit if kind == "where" else froms).append(obj)
        shape = self.pick(5)
        stmt = sa.select(*cols)
        for f in froms:
            stmt = stmt.join_from(t1, f, list(f.c)[0] == t1.c.id, isouter=self.flag()) if not getattr(f, "_is_lateral", False) else stmt.join_from(t1, f, sa.true())
        for w in crit:
            stmt = stmt.where(w)
        if shape == 1:
            self.k("add_cte")
            stmt = stmt.add_cte(c, nest_here=self.flag())
        elif shape == 2:
            self.k("setop")
            other = sa.select(*[sa.literal(0).label(f"z{i}") for i in range(len(cols))])
            stmt = sa.union_all(stmt, other)
        elif shape == 3:
            self.k("subquery")
            sq = stmt.subquery(self.name("top"))
            stmt = sa.select(sa.func.count()).select_from(sq)
        elif shape == 4:
            self.k("insert", "from_select")
            stmt = sa.insert(self.t2).from_select(["y"], sa.select(cols[0]).where(*crit) if crit else sa.select(sa.select(ref.c.n).limit(1).scalar_subquery()))
        if self.pick(3) == 0 and shape in (0, 1):
            self.k("limit", "order_by")
            stmt = stmt.order_by(t1.c.id).limit(3).offset(1)
        return "ctescopes", stmt


def sa_literal_label(sa):
    return sa.literal_column("1").label("one")


# ---------------------------------------------------------------------------------------
# the check
# ---------------------------------------------------------------------------------------
def _lib_frame(exc):
    found = None
    for fs in traceback.extract_tb(exc.__traceback__):
        if fs.filename.startswith(LIB):
            found = fs
    return found


def _recursion_cycle(exc):
    """stable classifier for a RecursionError: the sorted set of lib functions taking part in the cycle"""
    from collections import Counter

    frames = [fs for fs in traceback.extract_tb(exc.__traceback__) if fs.filename.startswith(LIB)]
    cnt = Counter(fs.name for fs in frames)
    names = sorted(n for n, c in cnt.items() if c >= 5 and n not in ("_compiler_dispatch", "process", "__get__"))
    return "cycle:" + "+".join(names[:6])


cases = st.one_of(st.lists(st.integers(0, 255), min_size=25, max_size=120), st.lists(st.integers(0, 255), max_size=40), st.lists(st.integers(0, 255), min_size=60, max_size=160))

# confirmed findings kept out of the search by construction: (required kinds, variants not compiled, reason)
EXCLUSIONS = [
    ({"delete", "multitable"}, {"sqlite", "oracle", "oracle_legacy", "oracle_nonansi"}, "multi-table DELETE on a backend without DELETE..USING raises builtin NotImplementedError (known finding)"),
    ({"update", "multitable"}, {"oracle", "oracle_legacy", "oracle_nonansi"}, "multi-table UPDATE on a backend without UPDATE..FROM raises builtin NotImplementedError (known finding)"),
    ({"text", "join"}, {"oracle_nonansi"}, "text().columns().subquery() / compound-select subquery in a join under Oracle use_ansi=False: is_derived_from NotImplementedError (known finding)"),
    ({"setop", "join"}, {"oracle_nonansi"}, "text().columns().subquery() / compound-select subquery in a join under Oracle use_ansi=False: is_derived_from NotImplementedError (known finding)"),
    ({"for_update_of_table", "limit"}, {"oracle_legacy"}, "with_for_update(of=<table or mapped class>) + LIMIT/OFFSET on Oracle<12: AttributeError proxy_set / RecursionError in translate_select_structure (known finding)"),
]


def excluded_variants(kinds, ctx):
    out = set()
    for need, variants, reason in EXCLUSIONS:
        if need <= kinds:
            out |= variants
            ctx.exclude(reason)
    return out


def compile_one(stmt, variant, opt, ps_index):
    if opt == "paramstyle":
        d = variant_dialect(variant, PARAMSTYLES[ps_index % len(PARAMSTYLES)])
        return str(stmt.compile(dialect=d))
    d = variant_dialect(variant)
    if opt == "plain":
        return str(stmt.compile(dialect=d))
    return str(stmt.compile(dialect=d, compile_kwargs={opt: True}))


def check_compile(case, ctx):
    from sqlalchemy import exc

    choices = case if isinstance(case, list) else case["choices"]
    pinned_variants = None if isinstance(case, list) else case.get("variants")
    pinned = not isinstance(case, list) and case.get("pinned", False)
    esc = not isinstance(case, list) and case.get("family") == "escnames"
    ctes = not isinstance(case, list) and case.get("family") == "ctescopes"
    b = EscB(choices, pinned=pinned, ctx=ctx) if esc else CteB(choices) if ctes else B(choices)
    with warnings.catch_warnings():
        warnings.simplefilter("ignore")
        try:
            opt = COMPILE_OPTS[b.pick(len(COMPILE_OPTS))]
            ps_index = b.pick(len(PARAMSTYLES))
            if not isinstance(case, list) and case.get("named"):
                fam, stmt = named_construct(case["named"])
                b.kinds.update(["pinned", case["named"]])
            else:
                fam, stmt = b.statement()
        except exc.SQLAlchemyError as e:
            ctx.info(f"ctor {type(e).__name__}")
            ctx.note(case, False, classes=["ctor-rejected"])
            return
        except RecursionError:
            raise
        except Exception as e:
            fs = _lib_frame(e)
            if fs is None:
                raise
            ctx.info(f"ctor-internal {type(e).__name__}/{os.path.basename(fs.filename)}:{fs.name}")
            ctx.note(case, False, classes=["ctor-internal"])
            return
        buckets = {}
        outcomes = []
        skip = set() if pinned else excluded_variants(b.kinds, ctx)
        if b.owner is not None and not pinned:
            # dialect-specific types / upserts are only well-formed input for the dialect that owns them
            foreign = {v for v in VARIANTS if variant_dialect(v).name != b.owner and not (b.owner == "mysql" and variant_dialect(v).name == "mariadb")}
            skip |= foreign
            ctx.info("owner-restricted:" + b.owner)
        jobs = []
        for variant in pinned_variants or VARIANTS:
            if variant in skip:
                continue
            if esc:
                # escaped bind names: every paramstyle of every dialect variant (plus its default), under the drawn compile option
                kw = {} if opt in ("plain", "paramstyle") else {"compile_kwargs": {opt: True}}
                if getattr(b, "executemany", False):
                    kw["for_executemany"] = True  # the flag the engine passes for executemany: enables the insertmanyvalues compile path
                for ps in [None] + PARAMSTYLES:
                    jobs.append((variant, (lambda v=variant, ps=ps, kw=kw: str(stmt.compile(dialect=variant_dialect(v, ps), **kw)))))
            else:
                jobs.append((variant, (lambda v=variant: compile_one(stmt, v, opt, ps_index))))
        for variant, job in jobs:
            try:
                job()
                outcomes.append("ok")
            except exc.SQLAlchemyError as e:
                outcomes.append(type(e).__name__)
            except Exception as e:  # classified below: only exceptions raised from inside lib/sqlalchemy count
                fs = _lib_frame(e)
                if fs is None:
                    raise
                sig = f"C22/{type(e).__name__}/{os.path.basename(fs.filename)}:{fs.name}"
                if isinstance(e, RecursionError):
                    sig = f"C22/RecursionError/{_recursion_cycle(e)}"
                if sig not in buckets:
                    buckets[sig] = (variant, opt, "".join(traceback.format_exception(e))[-1800:], str(e)[:300])
                outcomes.append("INTERNAL")
    kinds = sorted(b.kinds)
    ctx.note(
        case,
        len(kinds) >= 2,
        classes=["fam=" + fam, "opt=" + opt, "nkinds=" + str(min(len(kinds), 6))] + ["k=" + k for k in kinds] + ["outcome=" + o for o in sorted(set(outcomes))],
    )
    new = None
    for sig, (variant, opt_, tb, msg) in sorted(buckets.items()):
        ctx.info("bucket " + sig)
        if sig in ctx.known:
            ctx.known_hits[sig] += 1
            continue
        if new is None:
            new = (sig, variant, opt_, tb, msg)
    if new is not None:
        sig, variant, opt_, tb, msg = new
        try:
            text = str(stmt)[:600]
        except Exception:
            text = "<default-dialect str() failed too>"
        raise Violation(sig, f"compile on {variant} ({opt_}) raised {sig.split('/')[1]}: {msg}\nkinds={kinds}\nstatement (default dialect): {text}", observed=tb, expected="str or SQLAlchemyError")


_choice_lists = cases
cases = st.one_of(
    _choice_lists,
    _choice_lists,
    _choice_lists,
    _choice_lists,
    # second table family: names needing bind-name escaping (dict form keeps the decoding of plain list cases unchanged)
    st.fixed_dictionaries({"family": st.just("escnames"), "choices": st.lists(st.integers(0, 255), min_size=8, max_size=60)}),
    # third family: one shared (nesting / recursive) CTE referenced from several sibling and nested scopes
    st.fixed_dictionaries({"family": st.just("ctescopes"), "choices": st.lists(st.integers(0, 255), min_size=6, max_size=50)}),
)


def subs(tier):
    return [
        Generated("compile", check_compile, strategy=cases, quick=12000, thorough=300000),
    ]
