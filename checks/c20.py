"""C20 - database URLs round-trip through their string form."""
from __future__ import annotations

from hypothesis import strategies as st

from vf.api import Generated, Violation

PROPERTY = "C20"
LEVEL = "exploration"
RULE = (
    "components: drivername from [A-Za-z0-9_+]+, username/password/database arbitrary unicode text (no surrogates) weighted to URL-special "
    "characters (@ : / ? % + # & = [ ] space newline), host from a valid-host grammar (DNS names, IPv4, bracket-free IPv6 literals), port "
    "0-65535/None, query 0-4 keys with str or >=2-tuple values; optionally followed by set()/update_query_* operations; strings: URL-shaped "
    "strings assembled from arbitrary fragments, parse->render->parse fixed point. Non-trivial: >=1 component contains a URL-special or "
    "non-ASCII character; distinct = canonical JSON of the case"
)
ASSUMPTIONS = [
    "a password with username=None has no representation in the user:pass@ grammar and is not generated",
    "1-tuples / empty tuples as query values are non-canonical forms (make_url itself produces str or >=2-tuples): not generated",
    "lone surrogates cannot be percent-encoded by urllib (UnicodeEncodeError): not generated",
    "update_query_pairs is given (str, str) pairs only, as its docstring states",
    "hosts are syntactically valid, non-empty host names / addresses (the property's stated domain)",
    "for arbitrary strings make_url may reject the input (ArgumentError / ValueError for a non-numeric port): rejection is a legal outcome",
]

SPECIALS = "@:/?%+#&=[] \n;,'\"\\!$()*~"
_spec = st.sampled_from(list(SPECIALS))
_uni = st.characters(blacklist_categories=["Cs"])
_txt = st.text(st.one_of(_spec, _spec, st.sampled_from(list("abcXYZ019")), _uni), max_size=12)
_label = st.text(st.sampled_from(list("abcdefghijklmnopqrstuvwxyz0123456789-")), min_size=1, max_size=8).filter(lambda s: not s.startswith("-") and not s.endswith("-"))
_dns = st.lists(_label, min_size=1, max_size=4).map(".".join)
_ipv4 = st.tuples(*[st.integers(0, 255)] * 4).map(lambda t: ".".join(map(str, t)))
_hex = st.integers(0, 0xFFFF).map(lambda v: format(v, "x"))
_ipv6 = st.one_of(
    st.lists(_hex, min_size=8, max_size=8).map(":".join),
    st.tuples(st.lists(_hex, min_size=1, max_size=3), st.lists(_hex, min_size=1, max_size=3)).map(lambda t: ":".join(t[0]) + "::" + ":".join(t[1])),
    st.just("::1"),
)
_host = st.one_of(st.none(), _dns, _ipv4, _ipv6, st.just("localhost"))
_driver = st.text(st.sampled_from(list("abcdefgXYZ019_+")), min_size=1, max_size=10)
_qval = st.one_of(_txt, st.lists(_txt, min_size=2, max_size=3))
_query = st.dictionaries(_txt, _qval, max_size=4)


@st.composite
def _urls(draw):
    username = draw(st.one_of(st.none(), _txt))
    password = None if username is None else draw(st.one_of(st.none(), _txt))
    ops = []
    for _ in range(draw(st.integers(0, 3))):
        kind = draw(st.sampled_from(["set", "update_query_dict", "update_query_pairs", "update_query_string", "difference_update_query"]))
        if kind == "set":
            which = draw(st.sampled_from(["username", "password", "database", "host", "port", "query", "drivername"]))
            val = draw({"username": _txt, "password": _txt, "database": _txt, "host": _host.filter(lambda h: h is not None), "port": st.integers(0, 65535),
                        "query": _query, "drivername": _driver}[which])
            ops.append(["set", which, val])
        elif kind == "update_query_dict":
            ops.append([kind, draw(_query), draw(st.booleans())])
        elif kind == "update_query_pairs":
            ops.append([kind, draw(st.lists(st.tuples(_txt, _txt), max_size=3)), draw(st.booleans())])  # documented: "tuples containing two strings each"
        elif kind == "update_query_string":
            ops.append([kind, draw(st.lists(st.tuples(_txt.filter(bool), _txt.filter(bool)), max_size=3)), draw(st.booleans())])
        else:
            ops.append([kind, draw(st.lists(_txt, max_size=3))])
    return {
        "drivername": draw(_driver),
        "username": username,
        "password": password,
        "host": draw(_host),
        "port": draw(st.one_of(st.none(), st.integers(0, 65535))),
        "database": draw(st.one_of(st.none(), _txt)),
        "query": draw(_query),
        "ops": ops,
    }


def _norm_q(q):
    return {k: (tuple(v) if isinstance(v, (list, tuple)) else v) for k, v in q.items()}


def _is_special(s):
    return any(ch in SPECIALS or ord(ch) > 127 for ch in s)


def _roundtrip(u, where, case):
    from sqlalchemy.engine import make_url

    s = u.render_as_string(hide_password=False)
    try:
        u2 = make_url(s)
    except Exception as e:
        raise Violation("C20/rendered-url-rejected", f"{where}: make_url({s!r}) raised {type(e).__name__}: {e}", observed=s)
    for comp in ("drivername", "username", "password", "host", "port", "database"):
        a, b = getattr(u, comp), getattr(u2, comp)
        if a != b:
            sig = f"C20/roundtrip/{comp}"
            raise Violation(sig, f"{where}: {comp} {a!r} -> {s!r} -> {b!r}", observed=repr(b), expected=repr(a))
    qa, qb = dict(u.normalized_query), dict(u2.normalized_query)
    if qa != qb:
        blank = any("" in v for v in qa.values())
        lost = {k: v for k, v in qa.items() if qb.get(k) != v}
        sig = "C20/roundtrip/query-blank-value-dropped" if blank and all("" in v for v in lost.values()) else "C20/roundtrip/query"
        raise Violation(sig, f"{where}: query {qa!r} -> {s!r} -> {qb!r}", observed=repr(qb), expected=repr(qa))
    if not (u == u2) or u != u2:
        raise Violation("C20/roundtrip/eq", f"{where}: components equal but URL objects compare unequal: {u!r} vs {u2!r}")
    if hash(u) != hash(u2) or str(u) != str(u2):
        raise Violation("C20/roundtrip/hash-str", f"{where}: hash/str differ for equal URLs")
    s2 = u2.render_as_string(hide_password=False)
    if s2 != s:
        raise Violation("C20/roundtrip/render-not-stable", f"{where}: {s!r} re-rendered as {s2!r}")


def check_components(case, ctx):
    from sqlalchemy.engine import URL

    q = _norm_q(case["query"])
    strs = [case["username"], case["password"], case["database"]] + list(q) + [x for v in q.values() for x in ([v] if isinstance(v, str) else v)]
    nt = any(_is_special(s) for s in strs if s) or (case["host"] or "").count(":") > 0
    ctx.note(case, nt, classes=[("ipv6" if ":" in (case["host"] or "") else "host" if case["host"] else "nohost"), "q%d" % len(q), "ops%d" % len(case["ops"])]
             + (["blank-qval"] if any(v == "" or (not isinstance(v, str) and "" in v) for v in q.values()) else []))
    u = URL.create(case["drivername"], username=case["username"], password=case["password"], host=case["host"], port=case["port"],
                   database=case["database"], query=q)
    _roundtrip(u, "URL.create", case)
    for i, op in enumerate(case["ops"]):
        if op[0] == "set":
            val = _norm_q(op[2]) if op[1] == "query" else op[2]
            if op[1] == "password" and u.username is None:
                continue
            u = u.set(**{op[1]: val})
        elif op[0] == "update_query_dict":
            u = u.update_query_dict(_norm_q(op[1]), append=op[2])
        elif op[0] == "update_query_pairs":
            u = u.update_query_pairs([(k, tuple(v) if isinstance(v, list) else v) for k, v in op[1]], append=op[2])
        elif op[0] == "update_query_string":
            from urllib.parse import urlencode

            u = u.update_query_string(urlencode(op[1]), append=op[2])
        else:
            u = u.difference_update_query(op[1])
        _roundtrip(u, f"after op {i} {op[0]}", case)


# ---- second direction: arbitrary URL-shaped strings
_frag = st.lists(st.one_of(_spec, st.sampled_from(list("abc019")), st.sampled_from(["%40", "%3A", "%2F", "%25", "%zz", "%"]), _uni), max_size=8).map("".join)


@st.composite
def _strings(draw):
    parts = [draw(_driver), "://"]
    if draw(st.booleans()):
        parts.append(draw(_frag))
        if draw(st.booleans()):
            parts += [":", draw(_frag)]
        parts.append("@")
    h = draw(st.one_of(st.just(""), _dns, _ipv4, _ipv6.map(lambda s: f"[{s}]"), _frag))
    parts.append(h)
    if draw(st.booleans()):
        parts += [":", draw(st.one_of(st.integers(0, 65535).map(str), st.just(""), _frag))]
    if draw(st.booleans()):
        parts += ["/", draw(_frag)]
    if draw(st.booleans()):
        parts += ["?", draw(st.lists(st.tuples(_frag, st.one_of(_frag, st.just(""))).map(lambda kv: kv[0] + "=" + kv[1]), max_size=3).map("&".join))]
    return "".join(parts)


def check_strings(case, ctx):
    from sqlalchemy import exc
    from sqlalchemy.engine import make_url

    s = case
    try:
        u1 = make_url(s)
    except (exc.ArgumentError, ValueError, TypeError):
        ctx.note(case, False, classes=["rejected"])
        return
    ctx.note(case, _is_special(s.split("://", 1)[1]) if "://" in s else False, classes=["accepted"])
    if u1.username is None and u1.password is not None:
        return
    s2 = u1.render_as_string(hide_password=False)
    try:
        u2 = make_url(s2)
    except Exception as e:
        raise Violation("C20/rendered-url-rejected", f"make_url({s!r}) ok but its rendering {s2!r} is rejected: {e}")
    if u1 != u2:
        diffs = [c for c in ("drivername", "username", "password", "host", "port", "database") if getattr(u1, c) != getattr(u2, c)]
        if not diffs:
            qa, qb = dict(u1.normalized_query), dict(u2.normalized_query)
            blank = [k for k, v in qa.items() if "" in v]
            diffs = ["query-blank-value-dropped" if blank and all(qb.get(k) == v for k, v in qa.items() if k not in blank) else "query"]
        raise Violation(f"C20/fixedpoint/{diffs[0]}", f"{s!r} -> {u1!r} -> {s2!r} -> {u2!r}", observed=repr(u2), expected=repr(u1))
    if u2.render_as_string(hide_password=False) != s2:
        raise Violation("C20/fixedpoint/render-not-stable", f"{s2!r} re-rendered differently")


def subs(tier):
    return [
        Generated("components", check_components, strategy=_urls(), quick=16000, thorough=1500000),
        Generated("strings", check_strings, strategy=_strings(), quick=8000, thorough=500000),
    ]
