"""C43 - ORM-enabled UPDATE/DELETE keep in-session objects in sync with the database.

(1) evaluator grid: every criterion of depth <=2 over a small value grid is
evaluated by orm.evaluator._EvaluatorCompiler against an object and by SQLite
itself (three-valued result compared, not just "matched").
(2) statements: generated WHERE / SET trees, executed as ORM UPDATE/DELETE with
each synchronize_session strategy over loaded objects (some expired); afterwards
loaded attribute values and session membership must equal what the DB shows, or
the call raised before emitting SQL and nothing changed.
"""
from __future__ import annotations

import itertools

from hypothesis import strategies as st

from vf.api import Enumerated, Generated, Violation

PROPERTY = "C43"
LEVEL = "exploration"
RULE = (
    "grid: all criteria of depth <=2 (comparison / arithmetic / IN / NOT IN / IS NULL / startswith / endswith / concat leaves combined by "
    "AND, OR, NOT) over objects from the value grid x,y in {NULL,-7,0,1,3}, s in {NULL,'','a%b','axb'}, evaluator result vs SQLite's own "
    "three-valued answer; stmt: generated criteria trees (depth <=4) and SET clauses over 0-8 loaded objects (some expired) x UPDATE/DELETE x "
    "synchronize_session in {evaluate, fetch, auto}. Non-trivial: criterion has NOT over a NULL-able subexpression, % or / with a negative/zero "
    "operand, IN/NOT IN with NULL, a LIKE-family operator with %/_, or the composite-key family (a third of stmt cases: table PRIMARY KEY (id, k), mapper "
    "primary_key=[k, id], rows with mirrored key pairs), or an unflushed in-memory change (Session(autoflush=False)) on an attribute the UPDATE assigns and no "
    "expression of the statement reads (matched rows must then show the database value, unmatched rows keep their pending change), or the statement runs inside "
    "begin_nested() that is rolled back afterwards (objects loaded at statement time must show the reverted row again), with SET values that are SQL functions; distinct = canonical JSON"
)
ASSUMPTIONS = [
    "live SQLite only; UPDATE..RETURNING is available so 'fetch' uses RETURNING, and is also run with RETURNING disabled on the dialect (pre-select path)",
    "an exception raised by 'evaluate' before any SQL is emitted (InvalidRequestError / UnevaluatableError; also ZeroDivisionError / TypeError from Python evaluation) "
    "is the property's 'instead raises' outcome; DB and session must then be unchanged",
    "known findings kept out of generation and pinned: startswith/endswith with LIKE wildcards in a non-autoescaped operand; "
    "a zero divisor in a SET expression (ZeroDivisionError from Python evaluation after the UPDATE was emitted); partially expired objects under UPDATE + evaluate",
]

XS = [None, -7, 0, 1, 3]
SS = [None, "", "a%b", "axb"]
_state = {}


def _family():
    if _state:
        return _state
    from sqlalchemy import Column, Integer, String
    from sqlalchemy.orm import registry

    reg = registry()
    Base = reg.generate_base()

    class T(Base):
        __tablename__ = "c43_t"
        id = Column(Integer, primary_key=True)
        x = Column(Integer)
        y = Column(Integer)
        s = Column(String)

    class T2(Base):
        """same columns, composite primary key: the table declares PRIMARY KEY (id, k), the mapper lists it as (k, id); rows carry
        mirrored key pairs, so an identity key built in the wrong column order names another object of the session"""

        __tablename__ = "c43_t2"
        id = Column(Integer, primary_key=True)
        k = Column(Integer, primary_key=True)
        x = Column(Integer)
        y = Column(Integer)
        s = Column(String)
        __mapper_args__ = {"primary_key": [k, id]}

    reg.configure()
    _state.update(T=T, T2=T2, Base=Base)
    return _state


# ---------------------------------------------------------------- criterion trees -> SQLAlchemy
def _build(node, T):
    """node is a JSON tree; returns a SQLAlchemy expression"""
    from sqlalchemy import and_, literal, not_, null, or_

    k = node[0]
    if k == "col":
        return getattr(T, node[1])
    if k == "int":
        return literal(node[1])
    if k == "str":
        return literal(node[1])
    if k == "cmp":
        a, b = _build(node[2], T), _build(node[3], T)
        return {"eq": a == b, "ne": a != b, "lt": a < b, "le": a <= b, "gt": a > b, "ge": a >= b}[node[1]]
    if k == "arith":
        a, b = _build(node[2], T), _build(node[3], T)
        return {"add": a + b, "sub": a - b, "mul": a * b, "mod": a % b, "div": a / b}[node[1]]
    if k == "and":
        return and_(*[_build(n, T) for n in node[1]])
    if k == "or":
        return or_(*[_build(n, T) for n in node[1]])
    if k == "not":
        return not_(_build(node[1], T))
    if k == "in":
        return _build(node[1], T).in_(node[2])
    if k == "notin":
        return _build(node[1], T).not_in(node[2])
    if k == "isnull":
        return _build(node[1], T).is_(None)
    if k == "notnull":
        return _build(node[1], T).is_not(None)
    if k == "startswith":
        return T.s.startswith(node[1], autoescape=node[2])
    if k == "endswith":
        return T.s.endswith(node[1], autoescape=node[2])
    if k == "contains":
        return T.s.contains(node[1])
    if k == "like":
        return T.s.like(node[1])
    if k == "between":
        return T.x.between(node[1], node[2])
    if k == "concat_eq":
        return (T.s + node[1]) == node[2]
    raise ValueError(k)


def _features(node, acc, under_not=False):
    k = node[0]
    if k == "not":
        acc.add("not")
        _features(node[1], acc, True)
    elif k in ("and", "or"):
        acc.add(k)
        for n in node[1]:
            _features(n, acc, under_not)
    elif k in ("cmp", "arith"):
        if k == "arith" and node[1] in ("mod", "div"):
            acc.add("moddiv")
            if node[3][0] == "int" and node[3][1] <= 0 or node[3][0] == "col" or node[2][0] == "col" or (node[2][0] == "int" and node[2][1] < 0):
                acc.add("moddiv-negzero")
        if under_not:
            acc.add("not-over-nullable")
        _features(node[2], acc, under_not)
        _features(node[3], acc, under_not)
    elif k in ("in", "notin"):
        acc.add(k)
        if None in node[2]:
            acc.add("in-null")
        if not node[2]:
            acc.add("in-empty")
    elif k in ("startswith", "endswith"):
        acc.add("like-family")
        if "%" in node[1] or "_" in node[1]:
            acc.add("like-wildcard")
    elif k in ("contains", "like", "between"):
        acc.add("unevaluatable")
    elif k in ("isnull", "notnull", "concat_eq"):
        acc.add(k)
        if under_not:
            acc.add("not-over-nullable")


def _refcols(node, acc):
    """attribute names a criterion / SET expression tree reads"""
    if not isinstance(node, list) or not node:
        return
    k = node[0]
    if k == "col":
        acc.add(node[1])
    elif k in ("startswith", "endswith", "contains", "like", "concat_eq", "concat"):
        acc.add("s")
    elif k == "between":
        acc.add("x")
    for n in node[1:]:
        if isinstance(n, list):
            _refcols(n, acc)
            for m in n:
                if isinstance(m, list):
                    _refcols(m, acc)


def _has_wildcard_known(node):
    """startswith/endswith with an un-escaped LIKE wildcard in the operand (known finding E4)"""
    k = node[0]
    if k in ("startswith", "endswith"):
        # with autoescape the evaluator compares against the *escaped* operand ('a/%'), without it it ignores the wildcards
        return "%" in node[1] or "_" in node[1] or "/" in node[1]
    if k in ("and", "or"):
        return any(_has_wildcard_known(n) for n in node[1])
    if k == "not":
        return _has_wildcard_known(node[1])
    return False


NONTRIVIAL = {"not-over-nullable", "moddiv-negzero", "in-null", "like-wildcard", "composite-pk-mapper-order-differs"}


# ---------------------------------------------------------------- (1) evaluator grid vs SQLite
def _leaves():
    out = []
    for op in ("eq", "lt", "ge", "ne"):
        out.append(["cmp", op, ["col", "x"], ["int", 1]])
        out.append(["cmp", op, ["col", "x"], ["col", "y"]])
    for ar in ("add", "sub", "mul", "mod", "div"):
        out.append(["cmp", "gt", ["arith", ar, ["col", "x"], ["int", 3]], ["int", 0]])
        out.append(["cmp", "eq", ["arith", ar, ["col", "x"], ["col", "y"]], ["int", 1]])
    out.append(["cmp", "eq", ["arith", "mod", ["col", "x"], ["int", -3]], ["int", -1]])
    for lst in ([], [1], [1, None], [None], [0, 3]):
        out.append(["in", ["col", "x"], lst])
        out.append(["notin", ["col", "x"], lst])
    out += [["isnull", ["col", "x"]], ["notnull", ["col", "s"]]]
    for pat in ("a", "a%", "", "b", "x_"):
        for ae in (False, True):
            out.append(["startswith", pat, ae])
            out.append(["endswith", pat, ae])
    out.append(["concat_eq", "z", "axbz"])
    out.append(["cmp", "eq", ["col", "s"], ["str", ""]])
    return out


def _grid_cases(tier):
    leaves = _leaves()
    for l1 in leaves:
        yield l1
        yield ["not", l1]
    pairs = list(itertools.product(leaves, leaves))
    if tier == "quick":
        pairs = pairs[::7]
    for a, b in pairs:
        for comb in ("and", "or"):
            yield [comb, [a, b]]
            yield ["not", [comb, [a, b]]]
            yield [comb, [["not", a], b]]


_grid_db = {}


def _grid_setup():
    if _grid_db:
        return _grid_db
    from sqlalchemy.orm import Session

    from vf.sautil import mem_engine

    T = _family()["T"]
    eng = mem_engine()
    _family()["Base"].metadata.create_all(eng)
    objs = []
    with Session(eng) as s:
        i = 0
        for x in XS:
            for y in (None, 0, 3):
                for sv in SS:
                    i += 1
                    s.add(T(id=i, x=x, y=y, s=sv))
        s.commit()
    sess = Session(eng)
    objs = sess.query(T).order_by(T.id).all()
    _grid_db.update(eng=eng, sess=sess, objs=objs)
    return _grid_db


def check_grid(case, ctx):
    from sqlalchemy import case as sa_case
    from sqlalchemy import select
    from sqlalchemy.orm import evaluator

    T = _family()["T"]
    g = _grid_setup()
    feats = set()
    _features(case, feats)
    if _has_wildcard_known(case) and not (isinstance(case[-1], dict) and case[-1].get("pinned")):
        ctx.exclude("startswith/endswith with un-escaped LIKE wildcard (known finding)")
        ctx.note(case, False, classes=["excluded"])
        return
    if isinstance(case[-1], dict):
        case = case[:-1][0] if len(case) == 2 else case[:-1]
    ctx.note(case, bool(feats & NONTRIVIAL), classes=sorted(feats))
    expr = _build(case, T)
    try:
        ev = evaluator._EvaluatorCompiler(T).process(expr)
    except evaluator.UnevaluatableError:
        return
    # SQLite's own three-valued answer per row: 1 / 0 / NULL
    rows = g["sess"].execute(select(T.id, sa_case((expr, 1), else_=0), expr.is_(None)).order_by(T.id)).all()
    for obj, (rid, truth, isnull) in zip(g["objs"], rows):
        exp = None if isnull else bool(truth)
        try:
            got = ev(obj)
        except (ZeroDivisionError, TypeError):
            continue  # a raise, not a silent wrong answer
        if got is not None:
            got = bool(got)
        if got != exp:
            sig = _classify(case, obj, got, exp)
            raise Violation(sig, f"criterion {case} on (x={obj.x}, y={obj.y}, s={obj.s!r}): evaluator says {got}, SQLite says {exp}", observed=str(got), expected=str(exp))


def _classify(case, obj, got, exp):
    feats = set()
    _features(case, feats)
    if _has_wildcard_known(case):
        return "C43/evaluator/startswith-endswith-ignore-like-wildcards"
    if "moddiv" in feats and "mod" in str(case):
        return "C43/evaluator/mod-sign-semantics"
    if "in-null" in feats:
        return "C43/evaluator/in-with-null-member"
    if "and" in feats:
        return "C43/evaluator/and-null-short-circuit"
    return "C43/evaluator/wrong-truth-value"


# ---------------------------------------------------------------- (2) statements
_int = st.sampled_from([-7, -3, 0, 1, 2, 3])
_intcol = st.sampled_from([["col", "x"], ["col", "y"]])
_intexpr = st.deferred(lambda: st.one_of(
    _intcol, _intcol, _int.map(lambda v: ["int", v]),
    st.tuples(st.sampled_from(["add", "sub", "mul", "mod"]), _intexpr, _intexpr).map(lambda t: ["arith", t[0], t[1], t[2]]),
))
_intleaf = st.one_of(_intcol, _int.map(lambda v: ["int", v]))
# true division only at the top of a comparison over leaves (float modulo / floats stored in INTEGER columns are backend-specific)
_divcmp = st.tuples(st.sampled_from(["lt", "ge", "eq"]), _intleaf, _intleaf, _int).map(lambda t: ["cmp", t[0], ["arith", "div", t[1], t[2]], ["int", t[3]]])
_pat = st.sampled_from(["a", "a%", "", "b", "x_", "ax", "%"])
_leaf = st.one_of(
    _divcmp,
    st.tuples(st.sampled_from(["eq", "ne", "lt", "le", "gt", "ge"]), _intexpr, _intexpr).map(lambda t: ["cmp", t[0], t[1], t[2]]),
    st.tuples(st.sampled_from(["in", "notin"]), _intcol, st.lists(st.one_of(st.none(), _int), max_size=4)).map(lambda t: [t[0], t[1], t[2]]),
    st.tuples(st.sampled_from(["isnull", "notnull"]), st.sampled_from([["col", "x"], ["col", "y"], ["col", "s"]])).map(list),
    st.tuples(st.sampled_from(["startswith", "endswith"]), _pat, st.booleans()).map(list),
    st.tuples(st.just("concat_eq"), st.sampled_from(["z", ""]), st.sampled_from(["axbz", "z", "a%bz"])).map(list),
    st.tuples(st.just("cmp"), st.sampled_from(["eq", "ne"]), st.just(["col", "s"]), st.sampled_from(["", "axb", "a%b"]).map(lambda v: ["str", v])).map(list),
    st.sampled_from([["contains", "x"], ["like", "a%"], ["between", 0, 2]]),
)
_crit = st.recursive(
    _leaf,
    lambda ch: st.one_of(
        st.lists(ch, min_size=2, max_size=3).map(lambda l: ["and", l]),
        st.lists(ch, min_size=2, max_size=3).map(lambda l: ["or", l]),
        ch.map(lambda c: ["not", c]),
    ),
    max_leaves=6,
)
# SET expressions: % and / only by a non-zero literal (a zero divisor in SET raises ZeroDivisionError from the Python
# evaluation *after* the UPDATE was emitted: listed known finding, pinned)
_setexpr = st.deferred(lambda: st.one_of(
    _intcol, _intcol, _int.map(lambda v: ["int", v]),
    st.tuples(st.sampled_from(["add", "sub", "mul"]), _setexpr, _setexpr).map(lambda t: ["arith", t[0], t[1], t[2]]),
    st.tuples(st.just("mod"), _setexpr, st.sampled_from([-3, 1, 2, 3]).map(lambda v: ["int", v])).map(lambda t: ["arith", t[0], t[1], t[2]]),
))
_setclause = st.one_of(
    st.tuples(st.just("x"), st.one_of(_setexpr, st.just(["null"]))),
    st.tuples(st.just("y"), _setexpr),
    # SET values the Python evaluator cannot compute (a SQL function): the attribute can only be expired / fetched
    st.tuples(st.sampled_from(["x", "y"]), st.sampled_from([["abs", ["col", "x"]], ["abs", ["col", "y"]]])),
    st.tuples(st.just("s"), st.sampled_from([["str", "zz"], ["null"], ["concat", "q"]])),
)


@st.composite
def _stmts(draw):
    rows = draw(st.lists(st.tuples(st.sampled_from(XS), st.sampled_from(XS), st.sampled_from(SS)), max_size=8))
    return {
        "rows": [list(r) for r in rows],
        "expired": draw(st.lists(st.integers(0, 7), max_size=3)),
        "expired_attrs": [list(t) for t in draw(st.lists(st.tuples(st.integers(0, 7), st.sampled_from(["x", "y", "s"])), max_size=3))],
        "kind": draw(st.sampled_from(["update", "update", "delete"])),
        "sync": draw(st.sampled_from(["evaluate", "fetch", "auto", "fetch_noreturning"])),
        "crit": draw(_crit),
        "set": [list(x) for x in draw(st.lists(_setclause, min_size=1, max_size=2, unique_by=lambda t: t[0]))],
        "composite": draw(st.sampled_from([0, 0, 1])),
        # unflushed in-memory changes (Session(autoflush=False)) on attributes that the UPDATE assigns: [object index, attribute, value index]
        # the statement runs inside begin_nested(); afterwards the savepoint is rolled back and every object must show the pre-statement row again
        "savepoint": draw(st.sampled_from([0, 0, 1])),
        "dirty": [list(t) for t in draw(st.one_of(st.just([]), st.just([]), st.lists(st.tuples(st.integers(0, 7), st.sampled_from(["x", "y", "s"]), st.integers(0, 4)), min_size=1, max_size=3)))],
    }


def _build_set(spec, T):
    from sqlalchemy import null

    if spec[0] == "null":
        return null()
    if spec[0] == "concat":
        return T.s + spec[1]
    if spec[0] == "abs":
        from sqlalchemy import func

        return func.abs(_build(spec[1], T))
    return _build(spec, T)


def check_stmt(case, ctx):
    from sqlalchemy import delete, exc, inspect, update
    from sqlalchemy.orm import Session

    from vf.sautil import Capture, mem_engine

    composite = bool(case.get("composite"))
    T = _family()["T2" if composite else "T"]
    tname = T.__tablename__
    feats = set()
    _features(case["crit"], feats)
    if composite:
        feats.add("composite-pk-mapper-order-differs")
    if _has_wildcard_known(case["crit"]) and not case.get("pinned") and case["sync"] in ("evaluate", "auto"):
        ctx.exclude("startswith/endswith with un-escaped LIKE wildcard under evaluate (known finding)")
        ctx.note(case, False, classes=["excluded"])
        return
    ctx.note(case, bool(feats & NONTRIVIAL), classes=sorted(feats) + [case["kind"], case["sync"]])
    eng = mem_engine()
    if case["sync"] == "fetch_noreturning":
        eng.dialect.update_returning = False
        eng.dialect.delete_returning = False
    _family()["Base"].metadata.create_all(eng)
    cap = Capture(eng)
    read = set()
    _refcols(case["crit"], read)
    for _k, _v in case.get("set", []):
        _refcols(_v, read)
    set_keys = {k for k, _v in case.get("set", [])} if case["kind"] == "update" else set()
    # a pending change is applied only where no expression of the statement reads the attribute: otherwise in-memory evaluation and the
    # database legitimately disagree (autoflush was turned off by the application)
    dirty = [d for d in case.get("dirty", []) if d[1] in set_keys and d[1] not in read]
    sess = Session(eng, autoflush=not dirty)
    try:
        n_rows = len(case["rows"])
        for i, (x, y, s) in enumerate(case["rows"]):
            if composite:
                sess.add(T(id=i + 1, k=n_rows - i, x=x, y=y, s=s))  # (1, n), (2, n-1), .. (n, 1): mirrored pairs
            else:
                sess.add(T(id=i + 1, x=x, y=y, s=s))
        sess.commit()
        objs = sess.query(T).order_by(T.id).all()
        ids = [o.id for o in objs]
        for i in case["expired"]:
            if objs:
                sess.expire(objs[i % len(objs)])
        partial = case.get("expired_attrs", [])
        if partial and case["kind"] == "update" and case["sync"] in ("evaluate", "auto") and not case.get("pinned"):
            # UPDATE + evaluate applies the SET values to a partially expired object whose criteria could not be evaluated
            # (assumed matched; an existing repository test pins that behaviour): listed known finding
            ctx.exclude("partially expired object under UPDATE + evaluate (known finding)")
            partial = []
        for i, attr in partial:
            if objs:
                sess.expire(objs[i % len(objs)], [attr])
        expired_ids = {ids[i % len(objs)] for i in case["expired"]} if objs else set()
        expired_ids |= {ids[i % len(objs)] for i, _a in partial} if objs else set()
        pending = {}  # object id -> attributes carrying an unflushed change
        for i, attr, vi in dirty:
            if not objs:
                break
            o = objs[i % len(objs)]
            if o.id in expired_ids:
                continue
            pool = SS if attr == "s" else XS
            setattr(o, attr, pool[vi % len(pool)])
            if attr in inspect(o).committed_state:
                pending.setdefault(o.id, set()).add(attr)
        if pending:
            feats.add("pending-change-on-assigned-attribute")
            ctx.note(case, True, classes=["pending-change-on-assigned-attribute"])
        crit = _build(case["crit"], T)
        matched_ids = None
        if pending:
            from sqlalchemy import select

            matched_ids = {r[0] for r in sess.connection().execute(select(T.__table__.c.id).where(crit))}
        if case["kind"] == "update":
            stmt = update(T).where(crit).values({k: _build_set(v, T) for k, v in case["set"]})
        else:
            stmt = delete(T).where(crit)
        sync = "fetch" if case["sync"] == "fetch_noreturning" else case["sync"]
        before_rows = sess.connection().exec_driver_sql(f"select id, x, y, s from {tname} order by id").fetchall()
        before_mem = {oid: dict(inspect(o).dict) for oid, o in zip(ids, objs)}
        sp = sess.begin_nested() if (case.get("savepoint") and not dirty) else None
        if sp is not None:
            feats.add("inside-savepoint")
            ctx.note(case, True, classes=["inside-savepoint"] + (["savepoint+unevaluatable-set"] if any(v[0] == "abs" for _k, v in case.get("set", [])) and case["kind"] == "update" else []))
        cap.clear()
        raised = None
        try:
            sess.execute(stmt, execution_options={"synchronize_session": sync})
        except exc.InvalidRequestError as e:
            raised = e
        except (ZeroDivisionError, TypeError) as e:
            raised = e
        except exc.DBAPIError as e:
            # e.g. sqlite integer overflow: the statement itself failed in the database; nothing to compare
            sess.rollback()
            return
        dml = [r for r in cap.rows if r[0].lstrip().upper().startswith(("UPDATE", "DELETE"))]
        after_rows = sess.connection().exec_driver_sql(f"select id, x, y, s from {tname} order by id").fetchall()
        if raised is not None:
            if sync == "fetch":
                raise Violation("C43/fetch/raised", f"synchronize_session='fetch' raised {type(raised).__name__}: {raised}")
            if dml or after_rows != before_rows:
                raise Violation("C43/evaluate/set-clause-zero-division-after-dml" if isinstance(raised, ZeroDivisionError) else "C43/raised-after-emitting-sql", f"{type(raised).__name__} raised but DML was emitted / DB changed", observed=str(dml)[:300])
            for oid, o in zip(ids, objs):
                if oid not in expired_ids and {k: v for k, v in inspect(o).dict.items() if k in ("x", "y", "s")} != {k: v for k, v in before_mem[oid].items() if k in ("x", "y", "s")}:
                    raise Violation("C43/raised-but-session-changed", f"{type(raised).__name__} raised but object {oid} changed in memory")
            return
        db = {r[0]: r for r in after_rows}
        from sqlalchemy.orm.exc import ObjectDeletedError

        for oid, o in zip(ids, objs):
            st_ = inspect(o)
            if oid not in db:
                if st_.persistent and not ({"x", "y", "s"} & set(st_.dict)):
                    # conservative outcome: the object was expired instead of removed; it must then report its row as gone
                    try:
                        o.x
                    except ObjectDeletedError:
                        continue
                if st_.persistent:
                    sig = _sync_sig(case, "deleted-row-still-persistent")
                    raise Violation(sig, f"row {oid} deleted in DB but object still persistent in session (sync={case['sync']}, crit={case['crit']})",
                                    observed="persistent", expected="deleted/detached")
                continue
            if not st_.persistent:
                sig = _sync_sig(case, "live-row-removed-from-session")
                raise Violation(sig, f"row {oid} still in DB but object no longer persistent (sync={case['sync']}, crit={case['crit']})",
                                observed="not persistent", expected="persistent")
            row = db[oid]
            loaded = st_.dict
            # an unflushed change on a row the UPDATE did not match legitimately stays pending; on a matched row the assigned attribute
            # must now show (or load) what the database holds
            skip = pending.get(oid, set()) if (matched_ids is not None and oid not in matched_ids) else set()
            for idx, attr in ((1, "x"), (2, "y"), (3, "s")):
                if attr in skip:
                    continue
                if attr in loaded and loaded[attr] != row[idx]:
                    sig = _sync_sig(case, "stale-attribute")
                    raise Violation(sig, f"object {oid}.{attr} = {loaded[attr]!r} in memory but DB has {row[idx]!r} after {case['kind']} "
                                    f"(sync={case['sync']}, crit={case['crit']}, set={case.get('set')}); before: {before_rows[[r[0] for r in before_rows].index(oid)]}",
                                    observed=repr(loaded[attr]), expected=repr(row[idx]))
            # expired / unloaded attributes must load the DB value
            for idx, attr in ((1, "x"), (2, "y"), (3, "s")):
                if attr in skip:
                    continue
                if getattr(o, attr) != row[idx]:
                    raise Violation(_sync_sig(case, "reload-mismatch"), f"object {oid}.{attr} loads {getattr(o, attr)!r}, DB has {row[idx]!r}")
        if sp is not None:
            # (the loop above read every attribute, i.e. reloaded whatever the statement had expired, inside the savepoint)
            sp.rollback()
            back = {r[0]: r for r in sess.connection().exec_driver_sql(f"select id, x, y, s from {tname} order by id").fetchall()}
            if back == {r[0]: r for r in before_rows}:
                for oid, o in zip(ids, objs):
                    st_ = inspect(o)
                    if not st_.persistent:
                        raise Violation(f"C43/{case['sync']}/savepoint-rollback/object-not-restored", f"row {oid} is back after the savepoint rollback but the object is {'detached' if st_.detached else 'not persistent'} "
                                        f"(kind={case['kind']}, crit={case['crit']})")
                    if oid in expired_ids:
                        # an object that was (partly) expired when the statement ran is not synchronised but simply loads later; what it
                        # loaded inside the savepoint is ordinary loaded state, which a savepoint rollback does not expire (Session docs:
                        # only objects modified inside the savepoint are expired) - outside this property
                        continue
                    row = back[oid]
                    for idx, attr in ((1, "x"), (2, "y"), (3, "s")):
                        got = getattr(o, attr)
                        if got != row[idx]:
                            raise Violation(f"C43/{case['sync']}/savepoint-rollback/stale-attribute", f"after rolling back the savepoint around the {case['kind']}, object {oid}.{attr} = {got!r} but the row "
                                            f"reverted to {row[idx]!r} (sync={case['sync']}, crit={case['crit']}, set={case.get('set')})", observed=repr(got), expected=repr(row[idx]))
    finally:
        cap.close()
        sess.close()
        eng.dispose()


def _sync_sig(case, what):
    if case["sync"] in ("evaluate", "auto") and case["kind"] == "update" and case.get("expired_attrs") and what == "stale-attribute":
        return "C43/evaluate/update-partially-expired-assumed-matched"
    if case["sync"] in ("evaluate", "auto"):
        feats = set()
        _features(case["crit"], feats)
        if _has_wildcard_known(case["crit"]):
            return "C43/evaluator/startswith-endswith-ignore-like-wildcards"
        if "moddiv" in feats and "'mod'" in str(case["crit"]):
            return f"C43/{case['sync']}/{what}/mod"
        if "in-null" in feats:
            return f"C43/{case['sync']}/{what}/in-null"
    return f"C43/{case['sync']}/{what}"


def subs(tier):
    return [
        Enumerated("grid", check_grid, cases=_grid_cases),
        Generated("stmt", check_stmt, strategy=_stmts(), quick=1500, thorough=60000),
    ]
