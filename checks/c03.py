"""C03 - statement objects are immutable values; compilation is deterministic.

A case is a *derivation tree*: a root statement (Core select / compound, ORM
select, INSERT / UPDATE / DELETE incl. the sqlite / postgresql ON CONFLICT
variants, legacy Query) and a program of generative calls, clone operations
and observations, each applied to a random *earlier* node.

Oracle (snapshot / history invariant + metamorphic twin):
  * each node's (SQL string, params, positiontup) per dialect and its cache key
    are snapshotted at creation; after every call the operated node, all its
    ancestors and its clone-children are re-compiled and must equal their
    snapshot; at the end every node is re-verified on every selected dialect;
  * compiling twice gives the same result and leaves the cache key unchanged;
  * copy.copy / _clone / cloned_traverse / replacement_traverse / params() /
    pickle / ext.serializer copies compile like their source;
  * twin run: the same program executed *without* any intermediate compile or
    attribute access must produce nodes that compile identically - i.e.
    compiling / inspecting a statement does not change what is derived from it.
"""
from __future__ import annotations

import copy
import pickle
import re
import warnings

from hypothesis import strategies as st
from sqlalchemy import exc as sa_exc
from sqlalchemy import func, literal, select, text, union, union_all, except_, intersect
from sqlalchemy.dialects import mssql, mysql, oracle, postgresql, sqlite
from sqlalchemy.engine.default import DefaultDialect
from sqlalchemy.ext import serializer
from sqlalchemy.orm import Session
from sqlalchemy.sql import visitors
from sqlalchemy.sql.cache_key import HasCacheKey

from checks import _stmtgen as G
from vf.api import Generated, Violation

PROPERTY = "C03"
LEVEL = "exploration"
RULE = (
    "derivation trees: a generated root statement (Core select/compound/CTE/subquery, ORM select with loader options, INSERT/UPDATE/DELETE incl. "
    "sqlite/postgresql ON CONFLICT inserts, legacy Query) and 3-25 program steps, each applied to a drawn *earlier* node: ~45 generative "
    "methods, 7 clone kinds (copy.copy, _clone, cloned_traverse, replacement_traverse, params(), pickle, ext.serializer), compile on a drawn "
    "dialect and read-only attribute accesses; default dialect + 2 drawn of {sqlite, postgresql, mysql, mssql, oracle} per case. "
    "Non-trivial: some node has >=2 derived children and a collection-extending call (where/order_by/join/options/values/returning/...) ran on "
    "one child after a sibling or the parent was snapshotted; distinct = canonical JSON of the program"
)
ASSUMPTIONS = [
    "a generative call that raises a SQLAlchemyError (documented argument / state errors such as values() after from_select()) is a rejected step: no node is created and the parent must be unchanged",
    "compilation errors (CompileError etc.) are outcomes: the same statement must keep raising the same error type and message",
    "plain pickle copies the Table objects, so pickled copies are compared by SQL string and parameters only (not cache key); pickling is applied to Core statements only",
    "anonymous names are compared as rendered by the compiler (deterministic per compile), not by object identity",
    "warnings are not part of the observable",
    "the structural fingerprint is the cache key recomputed from scratch (ClauseElement memoizes _generate_cache_key per object) with 'dialect_options' entries removed: "
    "dialect compilers lazily fill per-dialect default options into a memo that generative copies share, which alters later-computed keys of copies but never the SQL "
    "(an explicit with_dialect_options() is still judged through the mysql SQL string)",
    "dialect-specific INSERT constructs (sqlite/postgresql/mysql insert()) are compiled on the default dialect and their own dialect only",
    "four confirmed defects are kept out of generated programs and replayed as pinned cases: with_dialect_options() (step replaced), values()/values([..]) on a traverse-clone of a "
    "DML statement (step replaced), pickle copies that hit the Comparator pickling defect on a selected dialect (replaced by copy.copy)",
]

DIALECTS = {
    "default": DefaultDialect(),
    "sqlite": sqlite.dialect(),
    "postgresql": postgresql.dialect(),
    "mysql": mysql.dialect(),
    "mssql": mssql.dialect(),
    "oracle": oracle.dialect(),
}
DNAMES = ["sqlite", "postgresql", "mysql", "mssql", "oracle"]
_HEX = re.compile(r"0x[0-9a-fA-F]+")
_ANON_ID = re.compile(r"\b\d{9,}\b")
_ANON_N = re.compile(r"\banon_\d+\b")
_NUM_SUFFIX = re.compile(r"\b([A-Za-z_]+?)_\d+\b")


def _outcome(stmt, dname):
    """(kind, sql, params, positions) of compiling stmt on the dialect"""
    d = DIALECTS[dname]
    try:
        c = stmt.compile(dialect=d)
        s = str(c)
        try:
            params = sorted((str(k), repr(v)) for k, v in c.params.items())
        except sa_exc.SQLAlchemyError as e:  # e.g. required bind without value
            params = ("params-error", type(e).__name__)
        pos = list(c.positiontup) if c.positiontup is not None else None
        return ("ok", s, params, pos)
    except (sa_exc.SQLAlchemyError, NotImplementedError) as e:
        return ("err", type(e).__name__, _ANON_ID.sub("N", _HEX.sub("0x", str(e)))[:300])
    except AttributeError as e:
        if _PICKLE_BUG in str(e):
            return ("pickle-bug", str(e))
        raise


_WLC_BUG = "'LoaderCriteriaOption' object has no attribute '__dict__'"
_PICKLE_BUG = "'NullType' object has no attribute '_expression_adaptations'"


def _anon_norm(out):
    """compiler-generated names (anon_1, coalesce_2, param_3) with their counter blanked"""
    if out[0] != "ok":
        return out
    f = lambda x: _NUM_SUFFIX.sub(r"\1_N", x)  # noqa: E731
    return ("ok", f(out[1]), [(f(k), v) for k, v in out[2]] if isinstance(out[2], list) else out[2], [f(p) for p in out[3]] if out[3] is not None else None)


def _strip_do(k):
    """drop ('dialect_options', (...)) pairs from a cache key tuple (see ASSUMPTIONS)"""
    if not isinstance(k, tuple):
        return k
    out = []
    skip = False
    for i, x in enumerate(k):
        if skip:
            skip = False
            continue
        if isinstance(x, str) and x == "dialect_options" and i + 1 < len(k) and isinstance(k[i + 1], tuple):
            skip = True
            continue
        out.append(_strip_do(x))
    return tuple(out)


def _keyprint(stmt):
    """structural fingerprint: the cache key computed afresh (ClauseElement memoizes
    _generate_cache_key per object, which would make 'unchanged' trivially true)"""
    try:
        if isinstance(stmt, _Broken):
            stmt._generate_cache_key()
        k = HasCacheKey._generate_cache_key(stmt)
    except sa_exc.SQLAlchemyError as e:
        return ("err", type(e).__name__)
    if k is None:
        return None
    return (_strip_do(k.key), [(b.key, repr(b.value), repr(b.type)) for b in k.bindparams])


def _keydiff(a, b, path="", out=None):
    """first few differing positions of two key prints (for messages)"""
    out = [] if out is None else out
    if len(out) >= 3:
        return out
    if isinstance(a, (tuple, list)) and isinstance(b, (tuple, list)):
        if len(a) != len(b):
            out.append(f"{path}: length {len(a)} != {len(b)}")
        for i, (x, y) in enumerate(zip(a, b)):
            _keydiff(x, y, f"{path}/{i}", out)
    else:
        try:
            same = bool(a == b)
        except Exception:
            same = a is b
        if not same:
            out.append(f"{path}: {a!r:.150} != {b!r:.150}")
    return out


def _keyprint_loose(kp):
    """key comparison for copies (bind keys carry the id of the bind object)"""
    if kp is None or kp[0] == "err":
        return kp
    return (kp[0], [(v, t) for _, v, t in kp[1]])


# ------------------------------------------------------------------ nodes
class Node:
    __slots__ = ("obj", "kind", "orm", "parent", "how", "snap", "key", "children", "clone_children", "idx", "core_picklable", "sess")

    def __init__(self, obj, kind, orm, parent, how):
        self.obj = obj
        self.kind = kind  # select | compound | insert | update | delete | query
        self.orm = orm
        self.parent = parent
        self.how = how
        self.snap = {}
        self.key = None
        self.children = []
        self.clone_children = []

    def stmt(self):
        if self.kind == "query":
            try:
                return self.obj.statement
            except sa_exc.SQLAlchemyError as e:
                return _Broken(e)
        return self.obj


class _Broken:
    """stands in for Query.statement when building it raises (an outcome, compared like a compile error)"""

    def __init__(self, e):
        self.e = e

    def compile(self, **kw):
        raise self.e

    def _generate_cache_key(self):
        raise self.e


def _kind_of(obj):
    from sqlalchemy.orm import Query
    from sqlalchemy.sql.dml import Delete, Insert, Update
    from sqlalchemy.sql.selectable import CompoundSelect, Select

    if isinstance(obj, Query):
        return "query"
    if isinstance(obj, Select):
        return "select"
    if isinstance(obj, CompoundSelect):
        return "compound"
    if isinstance(obj, Insert):
        return "insert"
    if isinstance(obj, Update):
        return "update"
    if isinstance(obj, Delete):
        return "delete"
    return None


EXTENDING = {
    "where", "filter", "order_by", "join", "outerjoin", "join_from", "options", "values", "returning", "group_by", "having", "add_columns",
    "prefix_with", "suffix_with", "with_hint", "add_cte", "rel_join", "filter_by", "values_multi", "execution_options", "correlate",
}


# ------------------------------------------------------------------ the interpreter
class Run:
    def __init__(self, case, quiet, replaced=None):
        self.replaced = set() if replaced is None else replaced  # step numbers whose pickle copy was replaced by copy.copy
        self.step_no = -1
        self.case = case
        self.quiet = quiet
        self.tg = G.Tagger(0)
        self.nodes = []
        self.dnames = ["default"] + [DNAMES[i % 5] for i in case["dialects"]]
        self.dnames = list(dict.fromkeys(self.dnames))
        if case["root"]["k"] == "ins_dialect":
            # a dialect-specific INSERT construct is only meant for its own dialect
            self.dnames = ["default", case["root"]["d"]]
        self.sess = Session()
        self.last_op = "root"
        self.rejected = 0
        self.excluded = 0
        self.excluded_values = 0
        self.pickle_excluded = 0
        self.clone_key_diffs = 0
        self.str_none = 0
        self.wlc_excluded = 0
        self.classes = set()
        self.extending_after_sibling = False

    # -- expression helpers
    def env(self, orm):
        return G.Env([G.table_src(t, orm) for t in range(3)], {}, orm)

    def be(self, rec, orm):
        return G.bx(G.concretize(rec["be"], self.tg), self.env(orm))

    def ex(self, rec, orm):
        return G.bx(G.concretize(rec["e"], self.tg), self.env(orm))

    def lit(self, base=3):
        return self.tg.int(base)

    # -- nodes
    def add(self, obj, parent, how, orm=None):
        kind = _kind_of(obj)
        if kind is None:
            raise AssertionError("not a statement: %r" % (obj,))
        n = Node(obj, kind, parent.orm if orm is None and parent is not None else bool(orm), parent, how)
        n.idx = len(self.nodes)
        self.nodes.append(n)
        if parent is not None:
            parent.children.append(n)
        if not self.quiet:
            self.snapshot(n)
        return n

    def snapshot(self, n):
        st_ = n.stmt()
        for dn in self.dnames:
            n.snap[dn] = _outcome(st_, dn)
        n.key = _keyprint(st_)

    def verify(self, n, dnames, what):
        st_ = n.stmt()
        for dn in dnames:
            got = _outcome(st_, dn)
            if got != n.snap[dn]:
                raise Violation(
                    f"C03/{what}/{self.last_op}",
                    f"node {n.idx} (created by {n.how}) compiles differently on {dn} after step '{self.last_op}'",
                    observed=got, expected=n.snap[dn],
                )
        k = _keyprint(st_)
        if n.kind == "query":
            # Query.statement builds a new Select (new bind objects) on every access
            same = _keyprint_loose(k) == _keyprint_loose(n.key)
        else:
            same = k == n.key
        if not same:
            raise Violation(
                f"C03/{what}-cache-key/{self.last_op}",
                f"node {n.idx} (created by {n.how}) has a different cache key after step '{self.last_op}': {_keydiff(n.key, k)}",
                observed=repr(k)[:1500], expected=repr(n.key)[:1500],
            )

    def verify_relatives(self, n):
        seen = set()
        cur = n
        while cur is not None and cur.idx not in seen:
            seen.add(cur.idx)
            self.verify(cur, ["default"], "ancestor-changed")
            for c in cur.clone_children:
                if c.idx not in seen:
                    seen.add(c.idx)
                    self.verify(c, ["default"], "clone-changed")
            cur = cur.parent

    # -- program
    def run(self):
        case = self.case
        root = self.build_root(case["root"])
        self.add(root[0], None, "root", orm=root[1])
        for rec in case["ops"]:
            parent = self.nodes[rec["p"] % len(self.nodes)]
            self.step(parent, rec)
        if not self.quiet:
            self.last_op = "end"
            for n in self.nodes:
                self.verify(n, self.dnames, "node-changed")

    def build_root(self, r):
        k = r["k"]
        if k in ("sel", "ins", "upd", "del", "insfs"):
            b = G.build(r, self.tg, 0)
            return b.stmt, bool(r.get("orm"))
        if k == "query":
            ent = G.ENTS[r["ent"] % 3]
            if r["cols"]:
                q = self.sess.query(ent.id, getattr(ent, "s"))
            else:
                q = self.sess.query(ent)
            return q, True
        if k == "ins_dialect":
            t = G.TABLES[r["t"] % 3]
            mod = {"sqlite": sqlite, "postgresql": postgresql, "mysql": mysql}[r["d"]]
            return mod.insert(t).values({"id": self.lit(1), G.DATA_COLS[r["t"] % 3][0]: self.lit(2)}), False
        raise AssertionError(k)

    def step(self, parent, rec):
        self.step_no += 1
        kind = parent.kind
        ops = OPS[kind]
        name = ops[rec["op"] % len(ops)]
        self.last_op = name
        self.classes.add(name)
        self.classes.add("kind:" + kind + (":orm" if parent.orm else ""))
        fn = getattr(self, "op_" + name)
        try:
            with warnings.catch_warnings():
                warnings.simplefilter("ignore")
                res = fn(parent, rec)
        except sa_exc.SQLAlchemyError:
            self.rejected += 1
            self.classes.add("rejected-step")
            res = None
        except TypeError as e:
            # off-property: filter_by()'s AmbiguousColumnError message calls str() on a FROM entity whose
            # stand-alone compilation is None (e.g. an alias of a CTE) -> TypeError instead of the intended error
            if "__str__ returned non-string" not in str(e):
                raise
            self.rejected += 1
            self.str_none += 1
            res = None
        except AttributeError as e:
            if _PICKLE_BUG in str(e):
                # operator applied to an unpickled element with a broken comparator (known finding)
                if self.case.get("pinned"):
                    raise Violation("C03/pickle/comparator-type-lost", f"{name}: {e}", observed=repr(e))
                self.pickle_excluded += 1
                if not self.quiet:
                    self.verify_relatives(parent)
                return
            if _WLC_BUG not in str(e):
                raise
            # known finding reached through a nested statement (any traversal-based copy: cloned_traverse,
            # replacement_traverse, params(), ...)
            if self.case.get("pinned"):
                raise Violation("C03/traverse-clone/loader-criteria-slots", f"{name}: {e}", observed=repr(e), expected="a copy that compiles like the source")
            self.wlc_excluded += 1
            res = None
        except NotImplementedError:
            self.rejected += 1
            res = None
        if res is not None:
            obj, how = res if isinstance(res, tuple) else (res, name)
            if obj is parent.obj:
                # returning the same object is legitimate when the call changes nothing
                # (e.g. set_label_style() with the current style); the object is still verified below
                self.classes.add("returned-self")
                if not self.quiet:
                    self.verify_relatives(parent)
                return
            if name in ("pickle", "serializer") and how == name and not self.quiet:
                # known finding: unpickled elements whose ``comparator`` was memoized before pickling carry a
                # comparator of type NullType; a dialect compiler that applies an operator to them (mssql / oracle
                # limit + offset) then fails with AttributeError
                outs = {dn: _outcome(obj, dn) for dn in self.dnames}
                renum = [dn for dn in self.dnames if outs[dn] != parent.snap[dn] and outs[dn][0] == "ok" == parent.snap[dn][0]
                         and _ANON_N.sub("anon_N", outs[dn][1]) == _ANON_N.sub("anon_N", parent.snap[dn][1])]
                if renum:
                    if self.case.get("pinned"):
                        raise Violation(
                            "C03/pickle/anon-label-renumbered",
                            f"{name} copy of node {parent.idx} renders an anonymous label under a different name than the enclosing SELECT refers to",
                            observed=outs[renum[0]][1], expected=parent.snap[renum[0]][1],
                        )
                    self.pickle_excluded += 1
                    self.replaced.add(self.step_no)
                    obj, how = copy.copy(parent.obj), "copy"
                    name = "copy"
                bad = [dn for dn in self.dnames if outs[dn][0] == "pickle-bug"]
                if bad and how != "copy":
                    if self.case.get("pinned"):
                        raise Violation(
                            "C03/pickle/comparator-type-lost",
                            f"{name} copy of node {parent.idx} cannot be compiled on {bad[0]}: the unpickled bind/column has a memoized comparator whose type is NullType",
                            observed=_outcome(obj, bad[0])[1], expected=parent.snap[bad[0]],
                        )
                    self.pickle_excluded += 1
                    self.replaced.add(self.step_no)
                    obj, how = copy.copy(parent.obj), "copy"
                    name = "copy"
            if self.quiet and self.step_no in self.replaced:
                obj, how, name = copy.copy(parent.obj), "copy", "copy"
            child = self.add(obj, parent, how)
            if name in CLONES:
                parent.clone_children.append(child)
                if not self.quiet:
                    self.check_clone(parent, child, name)
            if name in EXTENDING and len(parent.children) >= 2:
                self.extending_after_sibling = True
        if not self.quiet:
            self.verify_relatives(parent)

    def check_clone(self, src, clone, how):
        for dn in self.dnames:
            a, b = src.snap[dn], clone.snap[dn]
            if a != b:
                raise Violation(f"C03/clone-compiles-differently/{how}", f"{how} copy of node {src.idx} compiles differently on {dn}", observed=b, expected=a)
        if how not in ("pickle",):
            # a copy with a different cache key only costs a cache miss; counted, not judged
            if _keyprint_loose(src.key) != _keyprint_loose(clone.key):
                self.clone_key_diffs += 1

    # ---------------- generative ops: SELECT
    def _cols(self, n, rec, k=2):
        env = self.env(n.orm)
        out = [env.icol(rec["a"], rec["b"])]
        if k > 1 and rec["b"] % 2:
            out.append(env.scol(rec["a"] + 1))
        return out

    def op_where(self, n, rec):
        return n.obj.where(self.be(rec, n.orm))

    def op_filter(self, n, rec):
        return n.obj.filter(self.be(rec, n.orm))

    def op_filter_by(self, n, rec):
        if n.kind == "select" and not n.orm:
            return n.obj.filter_by(id=self.lit(rec["a"]))
        return n.obj.filter_by(id=self.lit(rec["a"]))

    def _target(self, n, rec):
        t = rec["a"] % 3
        return (G.ENTS[t] if n.orm else G.TABLES[t]), t

    def op_join(self, n, rec):
        target, t = self._target(n, rec)
        on = self.be(rec, n.orm)
        return n.obj.join(target, on, isouter=bool(rec["b"] & 1), full=bool(rec["b"] & 2))

    def op_outerjoin(self, n, rec):
        target, t = self._target(n, rec)
        return n.obj.outerjoin(target, self.be(rec, n.orm))

    def op_join_from(self, n, rec):
        target, t = self._target(n, rec)
        left = G.ENTS[(t + 1) % 3] if n.orm else G.TABLES[(t + 1) % 3]
        return n.obj.join_from(left, target, self.be(rec, n.orm))

    def op_rel_join(self, n, rec):
        t = rec["a"] % 3
        rel = G.RELS[t][rec["b"] % len(G.RELS[t])]
        return n.obj.join(getattr(G.ENTS[t], rel), isouter=bool(rec["b"] & 2))

    def op_order_by(self, n, rec):
        # rec["a"] & 4: order by a criterion (LIKE family etc. in ORDER BY position)
        e = self.be(rec, n.orm) if rec["a"] & 4 else self.ex(rec, n.orm)
        if hasattr(e, "desc") and rec["b"] & 1:
            e = e.desc()
        return n.obj.order_by(e)

    def op_order_by_none(self, n, rec):
        return n.obj.order_by(None)

    def op_group_by(self, n, rec):
        return n.obj.group_by(*self._cols(n, rec))

    def op_having(self, n, rec):
        if rec["b"] & 1:
            return n.obj.having(self.be(rec, n.orm))
        return n.obj.having(func.count(self._cols(n, rec, 1)[0]) > self.lit(rec["a"]))

    def op_limit(self, n, rec):
        return n.obj.limit(None if rec["a"] == 5 else rec["a"])

    def op_offset(self, n, rec):
        return n.obj.offset(rec["b"])

    def op_fetch(self, n, rec):
        return n.obj.fetch(rec["a"] + 1, with_ties=bool(rec["b"] & 1))

    def op_slice(self, n, rec):
        return n.obj.slice(rec["a"], rec["a"] + rec["b"] + 1)

    def op_distinct(self, n, rec):
        return n.obj.distinct()

    def op_with_only_columns(self, n, rec):
        return n.obj.with_only_columns(*self._cols(n, rec), maintain_column_froms=bool(rec["b"] & 2))

    def op_add_columns(self, n, rec):
        e = self.be(rec, n.orm) if rec["a"] & 4 else self.ex(rec, n.orm)
        if rec["b"] & 1:
            e = e.label("ac%d" % (rec["a"] % 2))
        return n.obj.add_columns(e)

    def op_correlate(self, n, rec):
        if rec["b"] % 3 == 0:
            return n.obj.correlate(None)
        if rec["b"] % 3 == 1:
            return n.obj.correlate(G.TABLES[rec["a"] % 3])
        if n.kind == "query":
            return n.obj.correlate(G.TABLES[(rec["a"] + 1) % 3])
        return n.obj.correlate_except(G.TABLES[rec["a"] % 3])

    def op_prefix_with(self, n, rec):
        d = [None, "*", "mysql", "sqlite"][rec["b"] % 4]
        if d:
            return n.obj.prefix_with("/*p%d*/" % (rec["a"] % 3), dialect=d)
        return n.obj.prefix_with("/*p%d*/" % (rec["a"] % 3))

    def op_suffix_with(self, n, rec):
        return n.obj.suffix_with("/*s%d*/" % (rec["a"] % 3))

    def op_with_for_update(self, n, rec):
        kw = [{}, {"nowait": True}, {"read": True}, {"skip_locked": True}, {"of": G.TABLES[rec["a"] % 3]}, {"key_share": True}][rec["b"] % 6]
        return n.obj.with_for_update(**kw)

    def op_with_hint(self, n, rec):
        return n.obj.with_hint(G.TABLES[rec["a"] % 3], "HINT%d" % (rec["b"] % 2), ["*", "mysql", "oracle", "mssql"][rec["b"] % 4])

    def op_with_statement_hint(self, n, rec):
        return n.obj.with_statement_hint("SH%d" % (rec["a"] % 2))

    def op_execution_options(self, n, rec):
        opts = [{"foo": rec["a"]}, {"populate_existing": True}, {"stream_results": True}, {"compiled_cache": None}, {"yield_per": 10}][rec["b"] % 5]
        return n.obj.execution_options(**opts)

    def op_options(self, n, rec):
        t = rec["a"] % 3
        o = {"o": G.LOADERS[rec["b"] % len(G.LOADERS)], "path": [rec["a"], rec["b"]][: 1 + rec["b"] % 2]}
        if rec["b"] % 7 == 6:
            o = {"o": "wlc", "ent": t, "crit": rec["be"], "aliases": bool(rec["a"] & 1)}
            o = G.concretize(o, self.tg)
        elif rec["b"] % 7 == 5:
            o = {"o": ["defer", "load_only"][rec["a"] % 2], "col": rec["a"]}
        ent_t = self._lead_entity(n, t)
        opt = G._build_option(o, ent_t, self.env(True))
        return n.obj.options(opt)

    def _lead_entity(self, n, default):
        try:
            stmt = n.stmt()
            for d in stmt.column_descriptions:
                ent = d.get("entity")
                if ent in G.ENTS:
                    return G.ENTS.index(ent)
        except Exception:
            pass
        return default

    def op_set_label_style(self, n, rec):
        return n.obj.set_label_style(G.LABEL_STYLES[rec["a"] % 3])

    def op_select_from(self, n, rec):
        target, t = self._target(n, rec)
        return n.obj.select_from(target)

    def op_reduce_columns(self, n, rec):
        return n.obj.reduce_columns()

    def op_wrap(self, n, rec):
        """subquery / cte / alias of the parent, selected from"""
        name = [None, "w0", "w1"][rec["a"] % 3]
        stmt = n.stmt()
        which = rec["b"] % 4
        if which == 0:
            sq = stmt.subquery(name)
        elif which == 1:
            sq = stmt.cte(name)
        elif which == 2:
            sq = stmt.cte(name, recursive=False).alias("al")
        else:
            sq = stmt.alias(name) if hasattr(stmt, "alias") else stmt.subquery(name)
        cols = list(sq.c)
        out = select(sq)
        if cols and rec["a"] & 1:
            out = select(cols[rec["b"] % len(cols)]).where(cols[0].is_not(None))
        return out, ["subquery", "cte", "cte-alias", "alias"][which]

    def op_exists(self, n, rec):
        stmt = n.stmt()
        return select(G.ta.c.id).where(stmt.exists()), "exists"

    def op_scalar_subquery(self, n, rec):
        stmt = n.stmt()
        first = list(stmt.selected_columns)[0]
        ss = stmt.with_only_columns(first).scalar_subquery() if hasattr(stmt, "with_only_columns") else stmt.scalar_subquery()
        return select(G.tb.c.id, ss.label("ss")).where(G.tb.c.x > self.lit(rec["a"])), "scalar_subquery"

    def op_add_cte(self, n, rec):
        if type(getattr(n.obj, "_independent_ctes", None)) is list:
            # traverse-clone: _independent_ctes is a (mutable) list that add_cte() extends in place
            if not self.case.get("pinned"):
                self.excluded_values += 1
                return self.op_execution_options(n, rec)
            before = _keyprint(n.obj)
            child = self._op_add_cte(n, rec)
            if _keyprint(n.obj) != before:
                raise Violation(
                    "C03/add_cte-after-traverse-clone/list-mutated",
                    "add_cte() on a cloned_traverse / replacement_traverse copy extends the copy's _independent_ctes list in place: the statement it was "
                    "called on changes and a second add_cte() on it renders the first CTE instead of its own",
                    observed=repr(_keyprint(n.obj))[:600], expected=repr(before)[:600],
                )
            return child
        return self._op_add_cte(n, rec)

    def _op_add_cte(self, n, rec):
        other = self.nodes[rec["a"] % len(self.nodes)]
        if other.kind not in ("select", "compound", "insert", "update", "delete"):
            other = n
        c = other.stmt().cte("ac%d" % (rec["b"] % 2))
        return n.obj.add_cte(c)

    def op_setop(self, n, rec):
        other = self.nodes[rec["a"] % len(self.nodes)]
        if other.kind not in ("select", "compound"):
            other = n
        fn = [union, union_all, except_, intersect][rec["b"] % 4]
        if rec["b"] & 4 and n.kind == "select":
            meth = ["union", "union_all", "except_", "intersect"][rec["b"] % 4]
            return getattr(n.obj, meth)(other.obj), "setop"
        return fn(n.obj, other.obj), "setop"

    def op_params(self, n, rec):
        from sqlalchemy.sql.elements import BindParameter

        names = []
        try:
            for el in visitors.iterate(n.stmt()):
                if isinstance(el, BindParameter) and not el.unique and el.key not in names and not str(el.key).startswith("%("):
                    names.append(el.key)
        except (sa_exc.SQLAlchemyError, AttributeError):
            pass
        self.classes.add("params:named-bind" if names else "params:no-named-bind")
        name = sorted(names)[rec["a"] % len(names)] if names else "p0"
        return n.obj.params({name: self.lit(rec["b"])})

    # ---------------- compound
    def op_c_order_by(self, n, rec):
        if type(getattr(n.obj, "_order_by_clauses", None)) is list:
            # traverse-clone of a CompoundSelect: _order_by_clauses is a (mutable) list
            if not self.case.get("pinned"):
                self.excluded_values += 1
                return self.op_execution_options(n, rec)
            before = _outcome(n.obj, "default")
            child = self._op_c_order_by(n, rec)
            after = _outcome(n.obj, "default")
            if before != after:
                raise Violation(
                    "C03/order_by-after-traverse-clone/compound-list-mutated",
                    "order_by() on a cloned_traverse / replacement_traverse copy of a CompoundSelect extends the copy's _order_by_clauses list in place "
                    "(the statement it was called on gains the ORDER BY)", observed=after, expected=before,
                )
            return child
        return self._op_c_order_by(n, rec)

    def _op_c_order_by(self, n, rec):
        cols = list(n.obj.selected_columns)
        return n.obj.order_by(cols[rec["a"] % len(cols)])

    # ---------------- DML
    def _dml_table(self, n):
        return n.obj.table

    def _dict_values(self, n):
        """True when the node carries the known-finding trigger: a DML copy made by
        cloned_traverse / replacement_traverse whose ``_values`` is a plain dict"""
        v = getattr(n.obj, "_values", None)
        return type(v) is dict

    def _values_call(self, n, fn, rec):
        if self._dict_values(n):
            if not self.case.get("pinned"):
                self.excluded_values += 1
                return self.op_prefix_with(n, rec)
            try:
                return fn()
            except AttributeError as e:
                if "'dict' object has no attribute 'union'" in str(e):
                    raise Violation(
                        "C03/values-after-traverse-clone/dict-values",
                        "values() on a cloned_traverse / replacement_traverse copy of an INSERT/UPDATE that already has values raises AttributeError "
                        "(the copy's _values is a plain dict, not an immutabledict)",
                        observed=repr(e), expected="a new statement with merged values, as for the source statement",
                    )
                raise
        return fn()

    def op_values(self, n, rec):
        return self._values_call(n, lambda: self._op_values(n, rec), rec)

    def _op_values(self, n, rec):
        t = _tindex(n.obj.table)
        col = (G.DATA_COLS[t] + ["s", "id"])[rec["a"] % 4]
        if col == "s":
            v = literal(self.tg.str(rec["b"]))
        elif n.kind == "update" and rec["b"] & 1:
            v = G.TABLES[t].c[G.INT_COLS[t][rec["b"] % 3]] + self.lit(rec["b"])
        else:
            v = self.lit(rec["b"])
        if rec["b"] & 2:
            return n.obj.values({n.obj.table.c[col]: v})
        return n.obj.values(**{col: v})

    def op_values_multi(self, n, rec):
        if type(getattr(n.obj, "_multi_values", None)) is list:
            # traverse-clone of a DML statement: _multi_values is a (mutable) list
            if not self.case.get("pinned"):
                self.excluded_values += 1
                return self.op_prefix_with(n, rec)
            before = _outcome(n.obj, "default")
            child = self._op_values_multi(n, rec)
            after = _outcome(n.obj, "default")
            if before != after:
                raise Violation(
                    "C03/values-after-traverse-clone/multi-values-list-mutated",
                    "values([...]) on a cloned_traverse / replacement_traverse copy of an INSERT extends the copy's _multi_values list in place "
                    "(the statement it was called on changes)", observed=after, expected=before,
                )
            return child
        return self._op_values_multi(n, rec)

    def _op_values_multi(self, n, rec):
        t = _tindex(n.obj.table)
        col = G.DATA_COLS[t][rec["a"] % 2]
        return n.obj.values([{col: self.lit(rec["b"] + i)} for i in range(2 + rec["b"] % 2)])

    def op_ordered_values(self, n, rec):
        t = _tindex(n.obj.table)
        return n.obj.ordered_values((G.DATA_COLS[t][rec["a"] % 2], self.lit(rec["b"])), ("s", self.tg.str(rec["a"])))

    def op_returning(self, n, rec):
        t = _tindex(n.obj.table)
        tbl = n.obj.table
        cols = [tbl.c[(["id"] + G.DATA_COLS[t] + ["s"])[rec["a"] % 4]]]
        if rec["b"] & 1:
            cols.append((G.TABLES[t].c.id + self.lit(rec["b"])).label("r%d" % (rec["b"] % 2)))
        return n.obj.returning(*cols)

    def op_return_defaults(self, n, rec):
        tbl = n.obj.table
        return n.obj.return_defaults(tbl.c.id) if rec["a"] & 1 else n.obj.return_defaults()

    def op_inline(self, n, rec):
        return n.obj.inline()

    def op_from_select(self, n, rec):
        t = _tindex(n.obj.table)
        src = G.TABLES[rec["a"] % 3]
        sel = select(src.c.id + self.lit(rec["b"]), src.c.s).where(src.c.id > self.lit(rec["a"]))
        return n.obj.from_select([G.DATA_COLS[t][rec["b"] % 2], "s"], sel)

    def op_dml_where(self, n, rec):
        t = _tindex(n.obj.table)
        env = G.Env([G.table_src(t, False)], {}, False)
        return n.obj.where(G.bx(G.concretize(rec["be"], self.tg), env))

    def op_dialect_options(self, n, rec):
        if not self.case.get("pinned"):
            # known finding C03/with_dialect_options/parent-mutated: kept out of generated programs
            self.excluded += 1
            return self.op_execution_options(n, rec)
        child = n.obj.with_dialect_options(mysql_limit=rec["a"] + 1)
        if not self.quiet:
            got = _outcome(n.stmt(), "mysql")
            want = n.snap.get("mysql") or got
            if "mysql" in n.snap and got != want:
                raise Violation(
                    "C03/with_dialect_options/parent-mutated",
                    "with_dialect_options() on a statement whose dialect_options were already memoized (it was compiled) writes the option into the parent statement",
                    observed=got, expected=want,
                )
        return child

    def op_on_conflict(self, n, rec):
        obj = n.obj
        tbl = obj.table
        if hasattr(obj, "on_conflict_do_update"):
            if rec["b"] & 1:
                return obj.on_conflict_do_nothing(index_elements=[tbl.c.id] if rec["a"] & 1 else None)
            t = _tindex(tbl)
            col = G.DATA_COLS[t][rec["a"] % 2]
            return obj.on_conflict_do_update(index_elements=[tbl.c.id], set_={col: obj.excluded[col] + self.lit(rec["a"])}, where=(G.TABLES[_tindex(tbl)].c.id > self.lit(rec["b"])) if rec["b"] & 2 else None)
        if hasattr(obj, "on_duplicate_key_update"):
            t = _tindex(tbl)
            col = G.DATA_COLS[t][rec["a"] % 2]
            return obj.on_duplicate_key_update(**{col: obj.inserted[col] + self.lit(rec["a"])})
        return obj.prefix_with("/*noconflict*/")

    # ---------------- Query
    def op_q_with_entities(self, n, rec):
        ent = G.ENTS[rec["a"] % 3]
        return n.obj.with_entities(ent.id, ent.s) if rec["b"] & 1 else n.obj.with_entities(ent)

    def op_q_add_entity(self, n, rec):
        return n.obj.add_entity(G.ENTS[rec["a"] % 3])

    def op_q_flags(self, n, rec):
        q = n.obj
        w = rec["b"] % 6
        if w == 0:
            return q.enable_eagerloads(bool(rec["a"] & 1))
        if w == 1:
            return q.populate_existing()
        if w == 2:
            return q.yield_per(rec["a"] + 1)
        if w == 3:
            return q.autoflush(bool(rec["a"] & 1))
        if w == 4:
            return q.only_return_tuples(bool(rec["a"] & 1))
        return q.enable_assertions(bool(rec["a"] & 1))

    def op_q_union(self, n, rec):
        other = self.nodes[rec["a"] % len(self.nodes)]
        if other.kind != "query":
            other = n
        return getattr(n.obj, ["union", "union_all", "intersect", "except_"][rec["b"] % 4])(other.obj)

    def op_q_subquery(self, n, rec):
        sq = n.obj.subquery("qs%d" % (rec["a"] % 2))
        return self.sess.query(sq), "q_subquery"

    def op_q_exists(self, n, rec):
        return self.sess.query(n.obj.exists()), "q_exists"

    # ---------------- clones
    def op_copy(self, n, rec):
        return copy.copy(n.obj)

    def op_clone(self, n, rec):
        return n.obj._clone()

    def _traverse(self, n, fn):
        from sqlalchemy.orm.util import LoaderCriteriaOption

        if any(isinstance(o, LoaderCriteriaOption) for o in getattr(n.obj, "_with_options", ())):
            if not self.case.get("pinned"):
                self.wlc_excluded += 1
                return n.obj._clone(), "clone"
            try:
                return fn()
            except AttributeError as e:
                if _WLC_BUG in str(e):
                    raise Violation(
                        "C03/traverse-clone/loader-criteria-slots",
                        "cloned_traverse / replacement_traverse of a select() carrying with_loader_criteria() raises AttributeError "
                        "(LoaderCriteriaOption defines __slots__, Generative._generate needs __dict__)",
                        observed=repr(e), expected="a copy that compiles like the source",
                    )
                raise
        return fn()

    def op_cloned_traverse(self, n, rec):
        return self._traverse(n, lambda: visitors.cloned_traverse(n.obj, {}, {}))

    def op_replacement_traverse(self, n, rec):
        return self._traverse(n, lambda: visitors.replacement_traverse(n.obj, {}, lambda e: None))

    def op_params_clone(self, n, rec):
        return n.obj.params()

    def op_pickle(self, n, rec):
        if n.orm or _has_unpicklable(n):
            return copy.copy(n.obj), "copy"
        return pickle.loads(pickle.dumps(n.obj, rec["a"] % 3 + 3))

    def op_serializer(self, n, rec):
        if n.orm or _has_unpicklable(n):
            return n.obj._clone(), "clone"
        return serializer.loads(serializer.dumps(n.obj), G.metadata)

    # ---------------- observations (no node is created)
    def op_compile(self, n, rec):
        if self.quiet:
            return None
        dn = (["default"] + DNAMES)[rec["a"] % 6]
        if self.case["root"]["k"] == "ins_dialect":
            # a dialect-specific INSERT construct is only meant for its own dialect (compiling a sqlite Insert..ON CONFLICT on
            # postgresql is a caller error, reported by an AttributeError inside the postgresql compiler)
            dn = self.dnames[rec["a"] % len(self.dnames)]
        st_ = n.stmt()
        k0 = _keyprint(st_)
        a = _outcome(st_, dn)
        b = _outcome(st_, dn)
        if a != b:
            raise Violation(f"C03/recompile-differs/{dn}", f"two consecutive compilations of node {n.idx} on {dn} differ", observed=b, expected=a)
        k1 = _keyprint(st_)
        if k0 != k1:
            raise Violation(f"C03/compile-mutates-statement/{dn}", f"cache key of node {n.idx} changed by compiling on {dn}", observed=repr(k1)[:1200], expected=repr(k0)[:1200])
        return None

    def op_access(self, n, rec):
        if self.quiet:
            return None
        st_ = n.stmt()
        w = rec["a"] % 9
        if w == 0 and hasattr(st_, "selected_columns"):
            list(st_.selected_columns)
        elif w == 1 and hasattr(st_, "exported_columns"):
            list(st_.exported_columns)
        elif w == 2 and hasattr(st_, "get_final_froms"):
            st_.get_final_froms()
        elif w == 3 and hasattr(st_, "column_descriptions"):
            st_.column_descriptions
        elif w == 4:
            getattr(st_, "whereclause", None)
        elif w == 5:
            st_._generate_cache_key()
        elif w == 6:
            str(st_)
        elif w == 7:
            st_.get_children()
        elif w == 8 and hasattr(st_, "subquery"):
            list(st_.subquery().c)
        return None


def _tindex(tbl):
    """index of the (possibly pickled copy of a) schema table"""
    return ["ta", "tb", "tc"].index(tbl.name)


def _has_unpicklable(n):
    return False


CLONES = {"copy", "clone", "cloned_traverse", "replacement_traverse", "params_clone", "pickle", "serializer"}
_CL = ["copy", "clone", "cloned_traverse", "replacement_traverse", "params_clone", "pickle", "serializer"]
_OBS = ["compile", "compile", "access"]
OPS = {
    "select": [
        "where", "where", "filter", "filter_by", "join", "outerjoin", "join_from", "rel_join", "order_by", "order_by", "order_by_none", "group_by",
        "having", "limit", "offset", "fetch", "slice", "distinct", "with_only_columns", "add_columns", "correlate", "prefix_with", "suffix_with",
        "with_for_update", "with_hint", "with_statement_hint", "execution_options", "options", "options", "set_label_style", "select_from",
        "reduce_columns", "wrap", "wrap", "exists", "scalar_subquery", "add_cte", "setop", "params",
    ] + _CL + _OBS,
    "compound": ["c_order_by", "limit", "offset", "fetch", "slice", "wrap", "wrap", "setop", "add_cte", "execution_options", "set_label_style", "exists", "params"] + _CL + _OBS,
    "insert": ["values", "values", "values_multi", "returning", "returning", "return_defaults", "inline", "from_select", "prefix_with", "execution_options", "add_cte", "on_conflict", "on_conflict", "params"] + _CL + _OBS,
    "update": ["values", "values", "ordered_values", "dml_where", "dml_where", "returning", "returning", "return_defaults", "prefix_with", "execution_options", "dialect_options", "add_cte", "params"] + _CL + _OBS,
    "delete": ["dml_where", "dml_where", "returning", "returning", "prefix_with", "with_hint", "execution_options", "add_cte", "params"] + _CL + _OBS,
    "query": [
        "where", "filter", "filter_by", "join", "outerjoin", "rel_join", "order_by", "order_by", "order_by_none", "group_by", "having", "limit", "offset", "slice",
        "distinct", "options", "options", "q_with_entities", "add_columns", "q_add_entity", "q_flags", "execution_options", "params", "with_for_update",
        "q_union", "correlate", "set_label_style", "select_from", "prefix_with", "suffix_with", "q_subquery", "q_exists", "with_hint", "copy",
    ] + _OBS,
}


def _is_rel_ok(n):
    return n.orm


# rel_join / options only make sense with ORM entities: for Core selects they fall back
def _fallback(fn_name, alt):
    orig = getattr(Run, "op_" + fn_name)

    def wrapper(self, n, rec):
        if not n.orm:
            return getattr(self, "op_" + alt)(n, rec)
        return orig(self, n, rec)

    setattr(Run, "op_" + fn_name, wrapper)


_fallback("rel_join", "join")
_fallback("options", "where")


# ------------------------------------------------------------------ check
def check_tree(case, ctx):
    stats0 = dict(G.STATS)
    obs = Run(case, quiet=False)
    try:
        obs.run()
    finally:
        multi = [n for n in obs.nodes if len(n.children) >= 2]
        nontrivial = bool(multi) and obs.extending_after_sibling
        classes = set(obs.classes)
        classes.add("nodes:%s" % ("1-3" if len(obs.nodes) <= 3 else "4-9" if len(obs.nodes) <= 9 else "10+"))
        classes.add("root:" + case["root"]["k"])
        rewritten = [k for k, v in G.STATS.items() if v != stats0.get(k, 0)]
        if rewritten:
            classes.add("rewritten-operator")  # operators the compiler rewrites at compile time (LIKE family, regexp, ...)
            for k in rewritten:
                classes.add("rw:" + k)
        if multi:
            classes.add("shared-ancestor")
        ctx.note(case, nontrivial, classes=classes)
        obs.sess.close()
    for _ in range(obs.excluded):
        ctx.exclude("with_dialect_options() step replaced (known finding C03/with_dialect_options/parent-mutated)")
    for _ in range(obs.pickle_excluded):
        ctx.exclude("pickle copy hits a known pickling finding (C03/pickle/comparator-type-lost or C03/pickle/anon-label-renumbered); replaced by copy.copy")
    for _ in range(obs.excluded_values):
        ctx.exclude("values() / values([..]) / add_cte() / CompoundSelect.order_by() on a traverse-clone replaced (known findings C03/*-after-traverse-clone/*)")
    for _ in range(obs.wlc_excluded):
        ctx.exclude("cloned_traverse / replacement_traverse of a statement carrying with_loader_criteria() replaced by _clone() (known finding C03/traverse-clone/loader-criteria-slots)")
    ctx.info("clone_with_different_cache_key", obs.clone_key_diffs)
    ctx.info("filter_by_ambiguity_message_TypeError(off-property)", obs.str_none)
    ctx.info("rejected_steps", obs.rejected)
    ctx.info("nodes", len(obs.nodes))
    # twin: the same program with no compile / access in between
    twin = Run(case, quiet=True, replaced=obs.replaced)
    try:
        twin.run()
        if len(twin.nodes) != len(obs.nodes):
            raise Violation("C03/twin/different-derivation", f"observed run built {len(obs.nodes)} nodes, quiet run {len(twin.nodes)} (a step was accepted in one and rejected in the other)")
        for a, b in zip(obs.nodes, twin.nodes):
            got = _outcome(b.stmt(), "default")
            # anonymous names are not a stable API: which anon_N a label gets may depend on memoized
            # anonymous labels of shared elements, so the twin comparison ignores the numbering
            if _anon_norm(got) != _anon_norm(a.snap["default"]):
                raise Violation(
                    f"C03/twin/compile-or-access-changed-derivation/{a.how}",
                    f"node {a.idx} ({a.how}) compiles differently when its ancestors were never compiled / inspected before the call",
                    observed=a.snap["default"], expected=got,
                )
    finally:
        twin.sess.close()


_rec = st.fixed_dictionaries(
    {
        "p": st.integers(0, 30),
        "op": st.integers(0, 60),
        "a": st.integers(0, 7),
        "b": st.integers(0, 7),
        "be": G.bool_expr_c(1),
        "e": G.any_expr_c(1),
    }
)


@st.composite
def _trees(draw):
    rk = draw(st.sampled_from(["sel", "sel", "sel_orm", "sel_orm", "dml", "dml", "query", "ins_dialect"]))
    if rk == "sel":
        root = draw(G.select_desc(1, orm=False))
    elif rk == "sel_orm":
        root = draw(G.select_desc(1, orm=True))
    elif rk == "dml":
        root = draw(G.dml_desc(1))
    elif rk == "query":
        root = {"k": "query", "ent": draw(st.integers(0, 2)), "cols": draw(st.integers(0, 1))}
    else:
        root = {"k": "ins_dialect", "t": draw(st.integers(0, 2)), "d": draw(st.sampled_from(["sqlite", "postgresql", "mysql"]))}
    ops = draw(st.lists(_rec, min_size=3, max_size=25))
    return {"root": root, "ops": ops, "dialects": draw(st.lists(st.integers(0, 4), min_size=2, max_size=2, unique=True))}


def subs(tier):
    return [Generated("tree", check_tree, strategy=_trees(), quick=2400, thorough=100000)]
