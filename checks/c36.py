"""C36 - attribute history reports exactly the net change since load, and flush persists it.

Three families of programs (scalar column, many-to-one reference, collection)
are run on real mapped objects; a reference model keeps ``committed`` (value at
load / last flush, or "not fetched" for expired attributes) and ``current``.
After every op ``inspect(obj).attrs.X.history`` must be the triple implied by
(committed, current); a flush must emit statements for exactly the net
difference, leave the database equal to ``current`` and reset the history.
"""
from __future__ import annotations

import re

from hypothesis import strategies as st

from vf.api import Generated, HarnessError, Violation

PROPERTY = "C36"
LEVEL = "exploration"
RULE = (
    "scalar: programs (<=20 ops) of set/del/read/flush/commit/expire over two column attributes (active_history off/on) of a new, loaded or expired "
    "object; ref: the same over a many-to-one attribute (plain / active_history) with 3 candidate parents, starting new, loaded, never-loaded or expired; "
    "coll: programs of append/insert/setitem/remove/pop/extend/replace/clear/set-operators/dict set/del/pop/update, child-side backref sets, flush/commit/expire "
    "over a list, set, dict one-to-many and a list many-to-many collection on a new, loaded or expired parent with persisted and brand-new children. "
    "Non-trivial: the program returns an attribute to its committed value after changing it, or mutates an attribute whose old value is not loaded, "
    "or replaces a whole collection with one sharing members, or (many-to-one sub-check) the object's row arrives again through a query while a change or `del` is pending; distinct = canonical JSON of the program"
)
ASSUMPTIONS = [
    "History conventions as documented in orm/attributes.py History / changelog migration_10 ('None' set vs never set), migration_13 (del ~ set None), migration_14 (empty collection access is not a change): "
    "scalars include None in `deleted`, object references do not; a `del` with no known previous value is reported as ([None], (), ())",
    "for an unloaded many-to-one without active_history either the 'old value not fetched' form (deleted=()) or the exact form is accepted (the old value may be found in the identity map without SQL)",
    "collections are compared by identity as sets for unchanged/deleted and in current order for added; programs never put the same child twice in a list",
    "autoflush off; Session.expire() of the parent is only issued when it has no pending changes (its children would keep theirs)",
    "after a rollback the harness resets the foreign key attribute of children that were INSERTed in the rolled-back transaction (transient objects keep their attribute values)",
    "confirmed findings (del of a column attribute on a persistent object breaks flush / a later read) are excluded by construction and pinned as replays",
]

SIG_DEL_FLUSH = "C36/del-column-attribute/flush-KeyError"
SIG_DEL_READ = "C36/del-column-attribute-expired/read-KeyError"
SIG_DICT_REPLACE = "C36/dict-collection-replace/same-key-different-object-InvalidRequestError"
SIG_DEL_FAILED = "C36/del-valueless-attribute/AttributeError-but-history-changed"

UNTOUCHED = "untouched"
DELETED = "deleted"
ABSENT = ("absent",)  # new object, nothing ever set
UNKNOWN = ("unknown",)  # persistent, value not loaded


def _h(hist):
    return (list(hist.added), list(hist.unchanged), list(hist.deleted))


def _set_cols(stmt):
    m = re.match(r"UPDATE (\w+) SET (.*) WHERE", stmt)
    if not m:
        return None
    return m.group(1), [p.split("=")[0].strip() for p in m.group(2).split(",")]


# =================================================================================================
# scalar columns
class _Attr:
    def __init__(self, committed, cur):
        self.committed = committed  # ABSENT | UNKNOWN | ("known", v)
        self.cur = cur  # UNTOUCHED | DELETED | ("val", v)

    def expected(self, is_object=False):
        c, cur = self.committed, self.cur
        known = c[0] == "known"
        if cur == UNTOUCHED:
            return ([], [c[1]], []) if known else ([], [], [])
        if cur == DELETED:
            if is_object and c == ABSENT:
                return ([], [], [])  # pending object, reference set then deleted again: nothing to report
            if known and not (is_object and c[1] is None):
                return ([], [], [c[1]])
            return ([None], [], [])
        v = cur[1]
        if known:
            if v == c[1]:
                return ([], [v], [])
            if is_object and c[1] is None:
                return ([v], [], [])
            return ([v], [], [c[1]])
        return ([v], [], [])

    def value(self):
        """the value a flush must leave in the row (None = NULL); 'same' = leave alone"""
        if self.cur == UNTOUCHED:
            return "same"
        if self.cur == DELETED:
            return None
        return self.cur[1]

    def changed(self):
        """True/False when the model knows whether an UPDATE is needed, None if it cannot know"""
        if self.cur == UNTOUCHED:
            return False
        v = None if self.cur == DELETED else self.cur[1]
        if self.committed[0] == "known":
            return v != self.committed[1]
        if self.committed == ABSENT:
            return True
        return None


VALS = [None, "a", "b", "c"]
ATTRS = ["name", "nick"]
ACTIVE = {"name": False, "nick": True}


def _violate_hist(prefix, op, step, attr, got, exp, m, active_sig=None):
    if active_sig:
        sig = active_sig
    elif sorted(map(repr, got[0] + got[1])) != sorted(map(repr, exp[0] + exp[1])):
        sig = f"{prefix}/added+unchanged!=current"
    elif sorted(map(repr, got[2] + got[1])) != sorted(map(repr, exp[2] + exp[1])):
        sig = f"{prefix}/deleted+unchanged!=committed"
    else:
        sig = f"{prefix}/partition"
    raise Violation(sig, f"step {step} {op}: history of {attr} is {got}, model (committed={m.committed}, current={m.cur}) implies {exp}", observed=repr(got), expected=repr(exp))


def check_scalar(case, ctx):
    from sqlalchemy import inspect

    from checks import _orm_state as F
    from vf.sautil import Capture

    U = F.UserL
    pinned = case.get("pinned", False)
    eng = F.new_db(F.tables_of(F.UserL, F.AddrL))
    sess = F.mk_session(eng, autoflush=False)
    cap = Capture(eng)
    classes = {"start:" + case["start"]}
    nontrivial = False
    try:
        init = case["init"]
        model = {}
        db = {}  # attr -> value in the row (None when no row yet / NULL)
        persistent = case["start"] != "new"
        if persistent:
            with eng.begin() as conn:
                conn.exec_driver_sql("INSERT INTO user_l (id, name, nick) VALUES (1, ?, ?)", (init["name"], init["nick"]))
            u = sess.get(U, 1)
            for a in ATTRS:
                db[a] = init[a]
                model[a] = _Attr(("known", init[a]), UNTOUCHED)
            if case["start"] == "expired":
                sess.expire(u)
                for a in ATTRS:
                    model[a].committed = UNKNOWN
        else:
            kw = {a: init[a] for a in ATTRS if init.get(a + "_set")}
            u = U(id=1, **kw)
            sess.add(u)
            for a in ATTRS:
                db[a] = None
                model[a] = _Attr(ABSENT, ("val", init[a]) if a in kw else UNTOUCHED)
        cap.clear()
        pk_expired = [case["start"] == "expired"]
        modified = [False]  # InstanceState.modified: set by any set/del, reset by flush / full expire only

        def load_expired():
            """a load of any expired attribute loads every expired, unmodified attribute"""
            pk_expired[0] = False
            for a in ATTRS:
                if model[a].committed == UNKNOWN and model[a].cur == UNTOUCHED:
                    model[a].committed = ("known", db[a])

        def verify(step, op, sig=None):
            for a in ATTRS:
                got = _h(inspect(u).attrs[a].history)
                exp = model[a].expected()
                if got != exp:
                    _violate_hist("C36/scalar", op, step, a, got, exp, model[a], sig)
                hc = inspect(u).attrs[a].history.has_changes()
                if hc != bool(exp[0] or exp[2]):
                    raise Violation("C36/scalar/has_changes", f"step {step} {op}: has_changes()={hc} for {a} with history {got}")

        verify(-1, "init")
        for step, opd in enumerate(case["ops"]):
            op, a, v = opd[0], ATTRS[opd[1] % 2], VALS[opd[2] % 4]
            m = model[a]
            n_sql = len(cap.rows)
            sig = None
            if op == "set":
                if m.cur == UNTOUCHED and m.committed == UNKNOWN and ACTIVE[a]:
                    load_expired()
                    classes.add("active_history-load")
                if m.committed == UNKNOWN:
                    nontrivial = True
                    classes.add("set-unloaded")
                if m.cur != UNTOUCHED and m.committed[0] == "known" and v == m.committed[1] and m.cur != ("val", v):
                    nontrivial = True
                    classes.add("set-back-to-original")
                m.cur = ("val", v)
                modified[0] = True
                setattr(u, a, v)
            elif op == "del":
                if m.cur == DELETED:
                    ctx.info("skipped:del-of-deleted")
                    continue
                if m.cur == UNTOUCHED and m.committed == ABSENT:
                    sig = SIG_DEL_FAILED
                    if not pinned:
                        ctx.exclude("del of an attribute that never had a value (AttributeError leaves a history entry; known finding)")
                        continue
                    try:
                        delattr(u, a)
                    except AttributeError:
                        pass
                    else:
                        raise Violation("C36/scalar/del-valueless-no-error", f"step {step}: del of valueless attribute did not raise")
                else:
                    if m.cur == UNTOUCHED and m.committed == UNKNOWN:
                        if ACTIVE[a]:
                            load_expired()
                        nontrivial = True
                        classes.add("del-unloaded")
                    m.cur = DELETED
                    modified[0] = True
                    delattr(u, a)
            elif op == "read":
                if m.cur == DELETED and persistent and m.committed[0] != "known":
                    sig = SIG_DEL_READ
                    if not pinned:
                        ctx.exclude("read of a column attribute deleted while expired (known finding)")
                        continue
                if m.cur == UNTOUCHED and m.committed == UNKNOWN:
                    load_expired()
                if m.cur == UNTOUCHED:
                    expv = m.committed[1] if m.committed[0] == "known" else None
                elif m.cur == DELETED:
                    expv = None
                else:
                    expv = m.cur[1]
                try:
                    got = getattr(u, a)
                except KeyError as e:
                    if sig:
                        raise Violation(sig, f"step {step}: reading {a} after `del` on an expired object raised KeyError: {e}", observed=str(e), expected="None")
                    raise
                if got != expv:
                    raise Violation("C36/scalar/read", f"step {step}: {a} reads {got!r}, model {expv!r}", observed=repr(got), expected=repr(expv))
            elif op in ("flush", "commit"):
                if persistent and any(model[x].cur == DELETED for x in ATTRS):
                    sig = SIG_DEL_FLUSH
                    if not pinned:
                        ctx.exclude("flush after del of a column attribute on a persistent object (known finding)")
                        continue
                exp_cols = {x: model[x].changed() for x in ATTRS}
                if persistent and pk_expired[0] and (modified[0] or any(model[x].cur != UNTOUCHED for x in ATTRS)):
                    load_expired()  # the UPDATE needs the expired primary key: one SELECT loads every expired, unmodified attribute
                cap.clear()
                try:
                    sess.flush()
                except KeyError as e:
                    if sig:
                        raise Violation(sig, f"step {step}: flush after `del obj.{a}` raised KeyError {e}", observed=f"KeyError {e}", expected="UPDATE ... SET col=NULL")
                    raise
                stmts = [s_ for s_ in cap.rows if not s_[0].startswith("SELECT")]
                if persistent:
                    upd = [_set_cols(s_[0]) for s_ in stmts if s_[0].startswith("UPDATE user_l")]
                    cols = set(upd[0][1]) if upd else set()
                    for x in ATTRS:
                        if exp_cols[x] is not None and (x in cols) != exp_cols[x]:
                            raise Violation("C36/scalar/flush-update-columns", f"step {step}: UPDATE sets {sorted(cols)}; {x} changed={exp_cols[x]} per model (committed={model[x].committed}, current={model[x].cur})",
                                            observed=sorted(cols), expected={k: v_ for k, v_ in exp_cols.items()})
                    if len(upd) > 1 or len(stmts) != len(upd):
                        raise Violation("C36/scalar/flush-extra-statements", f"step {step}: statements {[s_[0] for s_ in stmts]}")
                else:
                    if len(stmts) != 1 or not stmts[0][0].startswith("INSERT INTO user_l"):
                        raise Violation("C36/scalar/flush-insert", f"step {step}: statements {[s_[0] for s_ in stmts]}")
                for x in ATTRS:
                    val = model[x].value()
                    if val != "same":
                        db[x] = val
                row = sess.connection().exec_driver_sql("SELECT name, nick FROM user_l WHERE id=1").one()
                if tuple(row) != (db["name"], db["nick"]):
                    raise Violation("C36/scalar/flush-row", f"step {step}: row after flush {tuple(row)}, model {(db['name'], db['nick'])}", observed=list(row), expected=[db["name"], db["nick"]])
                for x in ATTRS:
                    mx = model[x]
                    if mx.cur not in (UNTOUCHED, DELETED):
                        mx.committed = ("known", mx.cur[1])
                    elif mx.cur == DELETED:
                        mx.committed = ABSENT  # key is simply gone from __dict__ (not expired): reads as None without SQL
                    mx.cur = UNTOUCHED
                persistent = True
                modified[0] = False
                if op == "commit":
                    sess.commit()
                    pk_expired[0] = True
                    for x in ATTRS:
                        model[x].committed = UNKNOWN
                cap.clear()
            elif op in ("expire_attr", "refresh_attr"):
                if not persistent:
                    ctx.info("skipped:expire-of-pending")
                    continue
                if m.cur != UNTOUCHED:
                    nontrivial = True
                    classes.add(op + ":discards-pending-change")
                if op == "expire_attr":
                    sess.expire(u, [a])  # attribute-level expire: pending change discarded, value = what the database holds
                    model[a] = _Attr(UNKNOWN, UNTOUCHED)
                else:
                    sess.refresh(u, [a])
                    model[a] = _Attr(("known", db[a]), UNTOUCHED)
            elif op == "expire":
                if not persistent:
                    ctx.info("skipped:expire-of-pending")
                    continue
                sess.expire(u)
                modified[0] = False
                pk_expired[0] = True
                for x in ATTRS:
                    model[x] = _Attr(UNKNOWN, UNTOUCHED)
            else:
                raise HarnessError(op)
            classes.add(op)
            if op == "set" and len(cap.rows) != n_sql and not ACTIVE[a]:
                raise Violation("C36/scalar/set-loaded-old-value", f"step {step}: set of {a} (active_history off) emitted SQL {cap.rows[n_sql:]}")
            verify(step, op, sig)
    finally:
        ctx.note(case, nontrivial, classes=classes)
        cap.close()
        sess.close()
        eng.dispose()


# =================================================================================================
# many-to-one reference
def check_ref(case, ctx):
    from sqlalchemy import inspect

    from checks import _orm_state as F
    from vf.sautil import Capture

    active = case["kind"] == "active"
    P, C = (F.UserS, F.AddrS) if active else (F.UserL, F.AddrL)
    ptab, ctab = P.__tablename__, C.__tablename__
    eng = F.new_db(F.tables_of(P, C))
    sess = F.mk_session(eng, autoflush=False)
    cap = Capture(eng)
    classes = {"start:" + case["start"], "kind:" + case["kind"]}
    nontrivial = False
    try:
        init = case["init"] % 4  # 0 = NULL, 1..3 parent id
        with eng.begin() as conn:
            for pid in (1, 2, 3):
                conn.exec_driver_sql(f"INSERT INTO {ptab} (id) VALUES (?)", (pid,))
            if case["start"] != "new":
                conn.exec_driver_sql(f"INSERT INTO {ctab} (id, user_id) VALUES (1, ?)", (init or None,))
        parents = {None: None}
        for pid in (1, 2, 3):
            if case["parents_loaded"] or True:
                parents[pid] = sess.get(P, pid)
        persistent = case["start"] != "new"
        dbv = init or None
        if persistent:
            c = sess.get(C, 1)
            if case["start"] == "loaded":
                c.user
                m = _Attr(("known", dbv), UNTOUCHED)
            elif case["start"] == "expired":
                sess.expire(c)
                m = _Attr(UNKNOWN, UNTOUCHED)
            else:  # "lazy": row loaded, relationship never accessed
                m = _Attr(UNKNOWN, UNTOUCHED)
        else:
            c = C(id=1)
            sess.add(c)
            m = _Attr(ABSENT, UNTOUCHED)
            dbv = None
        cap.clear()

        def as_ids(triple):
            return tuple([None if x is None else x.id for x in part] for part in triple)

        def verify(step, op):
            hist = inspect(c).attrs.user.history
            got = as_ids(_h(hist))
            exp = tuple(m.expected(is_object=True))
            ok = got == exp
            if not ok and m.committed == UNKNOWN and not active and m.cur != UNTOUCHED:
                # the old value may have been found in the identity map: exact form w.r.t. the row value
                alt = tuple(_Attr(("known", dbv), m.cur).expected(is_object=True))
                ok = got == alt
            if not ok:
                _violate_hist("C36/ref", op, step, "user", got, exp, m)
            if hist.has_changes() != bool(got[0] or got[2]):
                raise Violation("C36/ref/has_changes", f"step {step} {op}: has_changes() inconsistent with {got}")

        verify(-1, "init")
        for step, opd in enumerate(case["ops"]):
            op, v = opd[0], (opd[1] % 4) or None
            n_sql = len(cap.rows)
            if op == "set":
                if m.cur == UNTOUCHED and m.committed == UNKNOWN:
                    nontrivial = True
                    classes.add("set-unloaded")
                    if active:
                        m.committed = ("known", dbv)
                if m.cur == UNTOUCHED and m.committed == ABSENT and active:
                    m.committed = ("known", None)  # active_history resolves the old value of a pending object: None
                if m.cur != UNTOUCHED and m.committed[0] == "known" and v == m.committed[1] and m.cur != ("val", v):
                    nontrivial = True
                    classes.add("set-back-to-original")
                m.cur = ("val", v)
                c.user = parents[v]
            elif op == "del":
                if m.cur == DELETED or (m.cur == UNTOUCHED and m.committed == ABSENT):
                    ctx.info("skipped:del-without-value")
                    continue
                if m.cur == UNTOUCHED and m.committed == UNKNOWN:
                    nontrivial = True
                    classes.add("del-unloaded")
                    if active:
                        m.committed = ("known", dbv)
                m.cur = DELETED
                del c.user
            elif op == "read":
                if m.cur == DELETED and persistent and m.committed[0] != "known":
                    ctx.info("skipped:read-of-deleted-reference")  # the lazy loader re-populates it from the foreign key: not a history question
                    continue
                if m.cur == UNTOUCHED and (m.committed == UNKNOWN or (m.committed == ABSENT and persistent)):
                    m.committed = ("known", dbv)  # lazy load puts the value (None for a flushed object that never had one) into __dict__
                expv =(m.committed[1] if m.committed[0] == "known" else None) if m.cur == UNTOUCHED else (None if m.cur == DELETED else m.cur[1])
                got = c.user
                if got is not parents[expv]:
                    raise Violation("C36/ref/read", f"step {step}: user reads {got!r}, model parent {expv}")
            elif op in ("flush", "commit"):
                ch = m.changed()
                if m.committed == ABSENT:
                    ch = None  # never-set reference of a flushed object: whether NULL is rewritten is not part of the contract
                hexp = m.expected(is_object=True)
                if ch is False and (hexp[0] or hexp[2]):
                    ch = None  # `del` of a NULL reference is reported as ([None], (), ()): a NULL->NULL rewrite is tolerated
                cap.clear()
                sess.flush()
                stmts = [s_ for s_ in cap.rows if not s_[0].startswith("SELECT")]
                if persistent:
                    upd = [s_ for s_ in stmts if s_[0].startswith(f"UPDATE {ctab} SET user_id")]
                    if ch is not None and bool(upd) != ch:
                        raise Violation("C36/ref/flush-update", f"step {step}: UPDATE emitted={bool(upd)}, model says foreign key changed={ch} (committed={m.committed}, current={m.cur})",
                                        observed=[s_[0] for s_ in stmts], expected=ch)
                    if len(stmts) != len(upd) or len(upd) > 1:
                        raise Violation("C36/ref/flush-extra-statements", f"step {step}: statements {[s_[0] for s_ in stmts]}")
                val = m.value()
                if val != "same":
                    dbv = val
                row = sess.connection().exec_driver_sql(f"SELECT user_id FROM {ctab} WHERE id=1").one()
                if row[0] != dbv:
                    raise Violation("C36/ref/flush-row", f"step {step}: user_id after flush {row[0]}, model {dbv}", observed=row[0], expected=dbv)
                if m.cur not in (UNTOUCHED, DELETED):
                    m.committed = ("known", m.cur[1])
                elif m.cur == DELETED:
                    # persistent: the flush wrote NULL into the (loaded) foreign key, a lazy load answers None;
                    # pending: neither the reference nor the foreign key attribute ever got a value
                    m.committed = UNKNOWN if (persistent and m.committed != ABSENT) else ABSENT
                m.cur = UNTOUCHED
                persistent = True
                if op == "commit":
                    sess.commit()
                    m.committed = UNKNOWN
                    for pid in (1, 2, 3):
                        parents[pid].id  # keep parents loaded so that `.id` reads in the oracle emit nothing surprising
                cap.clear()
            elif op == "expire":
                if not persistent or m.cur != UNTOUCHED:
                    ctx.info("skipped:expire-with-pending-changes")
                    continue
                sess.expire(c)
                m = _Attr(UNKNOWN, UNTOUCHED)
            elif op == "requery":
                # the object's row arrives again through a query (identity-map hit; the session does not autoflush): loading must fill in
                # only what is unloaded and leave every pending change, including a `del`, and its history alone
                if not persistent:
                    ctx.info("skipped:requery-of-pending-object")
                    continue
                if m.committed == ABSENT:
                    # a flushed object whose reference never had a value is in a state of its own (neither loaded nor expired); what the
                    # row's arrival makes of it is not documented: kept out of the domain
                    ctx.info("skipped:requery-of-never-set-reference")
                    continue
                from sqlalchemy import select

                got = sess.scalars(select(C)).all()
                if len(got) != 1 or got[0] is not c:
                    raise Violation("C36/ref/requery-identity", f"step {step}: query returned {got!r}")
                if m.cur != UNTOUCHED:
                    nontrivial = True
                    classes.add("requery-over-pending-change")

            else:
                raise HarnessError(op)
            classes.add(op)
            if op in ("set", "del") and not active and len(cap.rows) != n_sql:
                raise Violation("C36/ref/set-loaded-old-value", f"step {step}: {op} (active_history off) emitted SQL {[r[0] for r in cap.rows[n_sql:]]}")
            verify(step, op)
    finally:
        ctx.note(case, nontrivial, classes=classes)
        cap.close()
        sess.close()
        eng.dispose()


# =================================================================================================
# collections
KINDS = {
    # kind: (parent class name, child class name, attr, backref attr on child, collection type)
    "o2m_list": ("UserL", "AddrL", "addresses", "user", "list"),
    "o2m_set": ("UserS", "AddrS", "addresses", "user", "set"),
    "dict": ("UserD", "Note", "notes", "owner", "dict"),
    "m2m_list": ("Item", "Keyword", "keywords", "items", "list"),
    # no backref: the parent's collection history is the only carrier of a change
    "nb_list": ("PlainP", "PItemL", "items_list", None, "list"),
    "nb_set": ("PlainP", "PItemS", "items_set", None, "set"),
    "nb_dict": ("PlainP", "PItemD", "items_dict", None, "dict"),
}
SIG_DEL_COLL = "C37/del-collection-attribute/removal-not-persisted"
NCHILD = 5
DKEYS = ["k0", "k1", "k2", "k0", "k1"]


def check_coll(case, ctx):
    from sqlalchemy import inspect
    from sqlalchemy.exc import InvalidRequestError

    from checks import _orm_state as F
    from vf.sautil import Capture

    kind = case["kind"]
    pname, cname, attr, back, ctype = KINDS[kind]
    P, C = getattr(F, pname), getattr(F, cname)
    m2m = kind == "m2m_list"
    tables = F.tables_of(P, C) + ([F.item_keyword] if m2m else [])
    if back is None:
        tables = F.tables_of(P, F.PItemL, F.PItemS, F.PItemD)
    fk = {"o2m_list": "user_id", "o2m_set": "user_id", "dict": "owner_id"}.get(kind, "parent_id")
    ctab = C.__tablename__
    eng = F.new_db(tables)
    sess = F.mk_session(eng, autoflush=False)
    cap = Capture(eng)
    classes = {"kind:" + kind, "start:" + case["start"]}
    nontrivial = False
    try:
        npersist = case["npersist"] % (NCHILD + 1)
        new_parent = case["start"] == "new"
        members0 = [] if new_parent else sorted({i % npersist for i in case["members"]} if npersist else set())
        with eng.begin() as conn:
            if not new_parent:
                conn.exec_driver_sql(f"INSERT INTO {P.__tablename__} (id) VALUES (1)")
            for i in range(npersist):
                if m2m:
                    conn.exec_driver_sql(f"INSERT INTO {ctab} (id) VALUES (?)", (i + 1,))
                    if i in members0:
                        conn.exec_driver_sql("INSERT INTO item_keyword (item_id, keyword_id) VALUES (1, ?)", (i + 1,))
                elif ctype == "dict":
                    conn.exec_driver_sql(f"INSERT INTO {ctab} (id, {fk}, key) VALUES (?, ?, ?)", (i + 1, 1 if i in members0 else None, DKEYS[i]))
                else:
                    conn.exec_driver_sql(f"INSERT INTO {ctab} (id, {fk}) VALUES (?, ?)", (i + 1, 1 if i in members0 else None))
        if ctype == "dict":
            # one key per member in the initial state
            seen = {}
            for i in members0:
                seen.setdefault(DKEYS[i], i)
            drop = [i for i in members0 if seen[DKEYS[i]] != i]
            if drop:
                with eng.begin() as conn:
                    for i in drop:
                        conn.exec_driver_sql(f"UPDATE {ctab} SET {fk}=NULL WHERE id=?", (i + 1,))
                members0 = [i for i in members0 if i not in drop]
        children = []
        for i in range(NCHILD):
            if i < npersist:
                children.append(sess.get(C, i + 1))
            else:
                children.append(C(id=i + 1, key=DKEYS[i]) if ctype == "dict" else C(id=i + 1))
        in_db = set(range(npersist))  # children that have a row
        in_sess = set(range(npersist))
        db_members = set(members0)

        def cidx(obj):
            for i, ch in enumerate(children):
                if ch is obj:
                    return i
            raise Violation("C36/coll/foreign-object", f"history mentions an object that is not one of the children: {obj!r}")

        if new_parent:
            p = P(id=1)
            sess.add(p)
            committed = ABSENT
            cur = None
        else:
            p = sess.get(P, 1)
            committed = UNKNOWN
            cur = None
            if case["start"] == "loaded":
                getattr(p, attr)
        p_persistent = not new_parent
        touched = False  # a mutation happened since load/flush
        del_pending = False  # `del obj.coll` hit a loaded collection of a persistent parent and was not discarded yet (known finding)
        p_committed = not new_parent
        c_in_db, c_db_members = set(in_db), set(db_members)  # state of the last COMMIT (for rollback)
        moved = set()  # children whose membership was toggled since the last flush

        def items(coll):
            return list(coll.values()) if ctype == "dict" else list(coll)

        def ensure_loaded():
            """collection access: loads (or creates) the collection; returns it"""
            nonlocal committed, cur
            coll = getattr(p, attr)
            if cur is None:
                got = [cidx(x) for x in items(coll)]
                exp = set() if committed == ABSENT else db_members
                if set(got) != exp or len(got) != len(exp):
                    raise Violation("C36/coll/load", f"collection loads {got}, rows say {sorted(exp)}", observed=got, expected=sorted(exp))
                cur = got
                if committed == UNKNOWN:
                    committed = ("known", list(got))
            return coll

        if case["start"] == "loaded":
            ensure_loaded()
        cap.clear()

        def expected():
            if cur is None:
                return ([], [], [])
            if not touched:
                return ([], list(cur), []) if committed != ABSENT else ([], [], [])
            if committed == ABSENT:
                return (list(cur), [], [])
            orig = committed[1]
            return ([i for i in cur if i not in orig], [i for i in cur if i in orig], [i for i in orig if i not in cur])

        def verify(step, op):
            hist = inspect(p).attrs[attr].history
            got = tuple([cidx(x) for x in part] for part in _h(hist))
            exp = expected()
            if new_parent and not p_persistent and not touched and got == ([], list(cur or []), []):
                return
            a_ok = got[0] == exp[0] if ctype == "list" else sorted(got[0]) == sorted(exp[0])
            if not (a_ok and sorted(got[1]) == sorted(exp[1]) and sorted(got[2]) == sorted(exp[2])):
                if sorted(got[0] + got[1]) != sorted(exp[0] + exp[1]):
                    sig = "C36/coll/added+unchanged!=current"
                elif sorted(got[2] + got[1]) != sorted(exp[2] + exp[1]):
                    sig = "C36/coll/deleted+unchanged!=committed"
                else:
                    sig = "C36/coll/partition"
                raise Violation(sig, f"step {step} {op}: history {got}, model (committed={committed}, current={cur}) implies {exp}", observed=repr(got), expected=repr(exp))
            if set(got[0]) & set(got[2]):
                raise Violation("C36/coll/added-and-deleted-overlap", f"step {step} {op}: {got}")
            if hist.has_changes() != bool(exp[0] or exp[2]):
                raise Violation("C36/coll/has_changes", f"step {step} {op}: has_changes()={hist.has_changes()} but model difference is {exp}")
            if cur is not None:
                real = [cidx(x) for x in items(getattr(p, attr))]
                if (real != cur) if ctype == "list" else (sorted(real) != sorted(cur)):
                    raise Violation("C36/coll/contents", f"step {step} {op}: collection holds {real}, model {cur}", observed=real, expected=cur)

        def absent_pick(k):
            ab = [i for i in range(NCHILD) if i not in cur]
            return ab[k % len(ab)] if ab else None

        def dict_put(i):
            """model of coll[key]=child for the dict kind: evicts the member holding the same key"""
            for j in list(cur):
                if DKEYS[j] == DKEYS[i] and j != i:
                    cur.remove(j)
            if i not in cur:
                cur.append(i)

        verify(-1, "init")
        for step, opd in enumerate(case["ops"]):
            op, a, b = opd[0], opd[1], opd[2]
            if op in ("del_attr", "expire_attr", "refresh_attr", "rollback") and back is not None:
                ctx.info("skipped:attribute-level-op-on-backref-kind")  # the other side would keep its own pending change
                continue
            if del_pending and op not in ("expire_attr", "refresh_attr", "rollback", "expire"):
                # everything downstream of the blank history left by `del obj.coll` belongs to the registered finding
                ctx.exclude("op after `del obj.coll` on a loaded collection before the change is discarded (known finding " + SIG_DEL_COLL + ")")
                continue
            if op == "del_attr":
                in_dict = attr in p.__dict__
                if not in_dict:
                    delattr(p, attr)  # documented no-op when the collection is not present
                    classes.add("del_attr:not-loaded")
                elif not p_persistent:
                    delattr(p, attr)
                    ensure_loaded()
                    moved |= set(cur)
                    del cur[:]
                    touched = True
                    classes.add("del_attr:pending-parent")
                else:
                    delattr(p, attr)
                    del_pending = True
                    classes.add("del_attr:persistent-loaded")
                    classes.add(op)
                    continue  # history after this point is what the finding is about
                classes.add(op)
                verify(step, op)
                continue
            if op in ("expire_attr", "refresh_attr"):
                if not p_persistent:
                    ctx.info("skipped:expire-of-pending")
                    continue
                was_del = del_pending
                if touched or was_del:
                    nontrivial = True
                    classes.add(op + ":discards-pending-change")
                if was_del:
                    classes.add(op + ":after-del_attr")
                if op == "expire_attr":
                    sess.expire(p, [attr])
                else:
                    sess.refresh(p, [attr])
                committed, cur, touched, del_pending = UNKNOWN, None, False, False
                moved.clear()
                if op == "refresh_attr":
                    ensure_loaded()
                classes.add(op)
                verify(step, op)
                continue
            if op == "rollback":
                if not p_committed:
                    ctx.info("skipped:rollback-before-first-commit")
                    continue
                if touched or del_pending:
                    nontrivial = True
                    classes.add("rollback:discards-pending-change")
                evicted = sorted(in_sess - c_in_db)
                sess.rollback()
                for i_ in evicted:
                    # objects INSERTed in the rolled-back transaction are transient again but keep their attribute values, including the
                    # foreign key the flush had synchronised; the harness (user code re-using them) clears it so that a later INSERT
                    # of the re-added child says only what the parent's collection history says
                    setattr(children[i_], fk, None)
                in_db, in_sess, db_members = set(c_in_db), set(c_in_db), set(c_db_members)
                committed, cur, touched, del_pending, p_persistent = UNKNOWN, None, False, False, True
                moved.clear()
                classes.add(op)
                verify(step, op)
                continue
            if op in ("flush", "commit"):
                added, _unch, deleted = expected()
                pend_children = sorted(in_sess - in_db)
                cap.clear()
                sess.flush()
                stmts = [(s_[0], s_[1]) for s_ in cap.rows if not s_[0].startswith("SELECT")]
                if cur is not None and touched:
                    db_members = set(cur)
                if new_parent and not p_persistent:
                    p_persistent = True
                # --- statements = exactly the net difference
                if m2m:
                    ins, dele = set(), set()
                    for s_, params in stmts:
                        plist = params if isinstance(params, list) else [params]
                        if s_.startswith("INSERT INTO item_keyword"):
                            ins |= {tuple(x) for x in plist}
                        elif s_.startswith("DELETE FROM item_keyword"):
                            dele |= {tuple(x) for x in plist}
                    exp_ins = {(1, i + 1) for i in added}
                    exp_del = {(1, i + 1) for i in deleted}
                    if ins != exp_ins or dele != exp_del:
                        raise Violation("C36/coll/flush-association-rows", f"step {step}: association INSERT {sorted(ins)} DELETE {sorted(dele)}; history difference added={added} deleted={deleted}",
                                        observed=[sorted(ins), sorted(dele)], expected=[sorted(exp_ins), sorted(exp_del)])
                else:
                    upd = set()
                    for s_, params in stmts:
                        if s_.startswith(f"UPDATE {ctab} SET {fk}=?"):
                            plist = params if isinstance(params, list) else [params]
                            upd |= {(x[1] - 1, x[0]) for x in plist}
                    exp_upd = {(i, 1) for i in added if i in in_db} | {(i, None) for i in deleted if i in in_db}
                    # a child that entered and left (or left and re-entered) since the last flush may get a no-op UPDATE from its own
                    # many-to-one attribute when that attribute's old value was never loaded; anything else must be exact
                    extra_ok = {(i, 1 if i in cur else None) for i in moved if i in in_db} if cur is not None else set()
                    if not (exp_upd <= upd and upd - exp_upd <= extra_ok):
                        raise Violation("C36/coll/flush-fk-updates", f"step {step}: foreign key UPDATEs {sorted(upd, key=repr)}; history difference added={added} deleted={deleted} (persisted children {sorted(in_db)})",
                                        observed=sorted(upd, key=repr), expected=sorted(exp_upd, key=repr))
                in_db |= in_sess
                # --- rows
                if m2m:
                    rows = {r[0] - 1 for r in sess.connection().exec_driver_sql("SELECT keyword_id FROM item_keyword WHERE item_id=1")}
                else:
                    rows = {r[0] - 1 for r in sess.connection().exec_driver_sql(f"SELECT id FROM {ctab} WHERE {fk}=1")}
                if rows != db_members:
                    raise Violation("C36/coll/flush-rows", f"step {step}: rows after flush say members {sorted(rows)}, model {sorted(db_members)}", observed=sorted(rows), expected=sorted(db_members))
                allrows = {r[0] - 1 for r in sess.connection().exec_driver_sql(f"SELECT id FROM {ctab}")}
                if allrows != in_db:
                    raise Violation("C36/coll/flush-child-rows", f"step {step}: child rows {sorted(allrows)}, model {sorted(in_db)}")
                if cur is not None:
                    committed = ("known", list(cur))
                elif committed == ABSENT:
                    committed = UNKNOWN
                touched = False
                moved.clear()
                if op == "commit":
                    sess.commit()
                    committed, cur = UNKNOWN, None
                    p_committed = True
                    c_in_db, c_db_members = set(in_db), set(db_members)
                cap.clear()
                classes.add(op)
                verify(step, op)
                continue
            if op == "expire":
                if not p_persistent or (touched and back is not None):
                    ctx.info("skipped:expire-with-pending-changes")
                    continue
                if touched or del_pending:
                    nontrivial = True
                    classes.add("expire:discards-pending-change")
                sess.expire(p)
                committed, cur, touched, del_pending = UNKNOWN, None, False, False
                moved.clear()
                classes.add(op)
                verify(step, op)
                continue
            if op == "read":
                ensure_loaded()
                classes.add(op)
                verify(step, op)
                continue
            # ---- mutations
            was_unloaded = cur is None and committed == UNKNOWN
            ensure_loaded()
            snapshot = set(cur)
            if op in ("child_set", "child_clear"):
                if m2m or ctype == "dict" or back is None:
                    op = "append" if op == "child_set" else "remove"
            if op in ("child_set", "child_clear"):
                # backref side; the parent's collection must be loaded for the event to reach it (documented limitation otherwise)
                ensure_loaded()
                if op == "child_set":
                    i = absent_pick(a)
                    if i is None:
                        continue
                    if i not in in_sess:
                        sess.add(children[i])  # backref events do not cascade the child into the session (2.0 behaviour)
                    setattr(children[i], back, p)
                    cur.append(i)
                    in_sess.add(i)
                else:
                    if not cur:
                        continue
                    i = cur[a % len(cur)]
                    setattr(children[i], back, None)
                    cur.remove(i)
            else:
                coll = ensure_loaded()
                before = list(cur)
                if ctype == "list":
                    if op == "append":
                        i = absent_pick(a)
                        if i is None:
                            continue
                        coll.append(children[i])
                        cur.append(i)
                    elif op == "insert":
                        i = absent_pick(a)
                        if i is None:
                            continue
                        pos = b % (len(cur) + 1)
                        coll.insert(pos, children[i])
                        cur.insert(pos, i)
                    elif op == "setitem":
                        i = absent_pick(a)
                        if i is None or not cur:
                            continue
                        pos = b % len(cur)
                        coll[pos] = children[i]
                        cur[pos] = i
                    elif op == "remove":
                        if not cur:
                            continue
                        i = cur[a % len(cur)]
                        coll.remove(children[i])
                        cur.remove(i)
                    elif op == "pop":
                        if not cur:
                            continue
                        pos = b % len(cur)
                        got = coll.pop(pos)
                        if got is not children[cur[pos]]:
                            raise Violation("C36/coll/pop", f"step {step}: pop({pos}) returned the wrong child")
                        cur.pop(pos)
                    elif op == "extend":
                        new = [i for i in dict.fromkeys(x % NCHILD for x in opd[3]) if i not in cur]
                        coll.extend([children[i] for i in new])
                        cur.extend(new)
                    elif op == "replace":
                        new = list(dict.fromkeys(x % NCHILD for x in opd[3]))
                        setattr(p, attr, [children[i] for i in new])
                        if set(new) & set(before):
                            nontrivial = True
                            classes.add("replace-sharing-members")
                        cur[:] = new
                    elif op == "clear":
                        coll.clear()
                        del cur[:]
                    else:
                        raise HarnessError(op)
                elif ctype == "set":
                    sel = list(dict.fromkeys(x % NCHILD for x in opd[3]))
                    if op in ("append", "insert", "setitem"):
                        i = absent_pick(a)
                        if i is None:
                            continue
                        coll.add(children[i])
                        cur.append(i)
                    elif op in ("remove", "pop"):
                        if not cur:
                            continue
                        i = cur[a % len(cur)]
                        if op == "remove":
                            coll.remove(children[i])
                        else:
                            coll.discard(children[i])
                        cur.remove(i)
                    elif op == "extend":
                        coll.update([children[i] for i in sel])
                        cur.extend(i for i in sel if i not in cur)
                    elif op == "replace":
                        setattr(p, attr, {children[i] for i in sel})
                        if set(sel) & set(before):
                            nontrivial = True
                            classes.add("replace-sharing-members")
                        cur[:] = sel
                    elif op == "clear":
                        if b % 2:
                            coll.clear()
                            del cur[:]
                        else:
                            coll.difference_update({children[i] for i in sel})
                            cur[:] = [i for i in cur if i not in sel]
                    else:
                        raise HarnessError(op)
                else:  # dict
                    sel = list(dict.fromkeys(x % NCHILD for x in opd[3]))
                    if op in ("append", "insert", "setitem"):
                        i = a % NCHILD
                        coll[DKEYS[i]] = children[i]
                        dict_put(i)
                    elif op in ("remove", "pop"):
                        if not cur:
                            continue
                        i = cur[a % len(cur)]
                        if op == "remove":
                            del coll[DKEYS[i]]
                        else:
                            got = coll.pop(DKEYS[i])
                            if got is not children[i]:
                                raise Violation("C36/coll/pop", f"step {step}: dict pop returned the wrong child")
                        cur.remove(i)
                    elif op == "extend":
                        d = {}
                        for i in sel:
                            d[DKEYS[i]] = children[i]
                        coll.update(d)
                        for k, ch in d.items():
                            dict_put(cidx(ch))
                    elif op == "replace":
                        d = {}
                        for i in sel:
                            d[DKEYS[i]] = children[i]
                        clash = any(DKEYS[j] in d and d[DKEYS[j]] is not children[j] for j in cur)
                        if clash and not case.get("pinned"):
                            ctx.exclude("replacing a keyed-dict collection by one holding a different object under an existing key (known finding)")
                            continue
                        try:
                            setattr(p, attr, d)
                        except InvalidRequestError as e:
                            if clash:
                                raise Violation(SIG_DICT_REPLACE, f"step {step}: assigning {{key: other_object}} over a keyed dict collection with a backref raised: {e}",
                                                observed=str(e)[:300], expected="collection replaced")
                            raise
                        new = [cidx(ch) for ch in d.values()]
                        if set(new) & set(before):
                            nontrivial = True
                            classes.add("replace-sharing-members")
                        cur[:] = new
                    elif op == "clear":
                        coll.clear()
                        del cur[:]
                    else:
                        raise HarnessError(op)
                in_sess |= set(cur)
            touched = True
            moved |= snapshot ^ set(cur)
            classes.add(op)
            if was_unloaded:
                nontrivial = True
                classes.add("mutate-unloaded")
            if committed != ABSENT and committed != UNKNOWN and set(cur) == set(committed[1]) and op not in ("read",):
                nontrivial = True
                classes.add("back-to-original")
            verify(step, op)
    finally:
        ctx.note(case, nontrivial, classes=classes)
        cap.close()
        sess.close()
        eng.dispose()


# =================================================================================================
_small = st.integers(0, 7)


@st.composite
def _scalar_programs(draw):
    ops = draw(st.lists(st.tuples(st.sampled_from(["set"] * 5 + ["del", "del", "read", "flush", "flush", "commit", "expire", "expire_attr", "refresh_attr"]), st.integers(0, 1), st.integers(0, 3)), min_size=1, max_size=20))
    init = {"name": draw(st.sampled_from(VALS)), "nick": draw(st.sampled_from(VALS)), "name_set": draw(st.booleans()), "nick_set": draw(st.booleans())}
    return {"start": draw(st.sampled_from(["new", "loaded", "expired"])), "init": init, "ops": [list(o) for o in ops]}


@st.composite
def _ref_programs(draw):
    ops = draw(st.lists(st.tuples(st.sampled_from(["set"] * 5 + ["del", "del", "read", "flush", "flush", "commit", "expire", "requery", "requery"]), st.integers(0, 3)), min_size=1, max_size=20))
    return {"kind": draw(st.sampled_from(["plain", "active"])), "start": draw(st.sampled_from(["new", "loaded", "lazy", "expired"])), "init": draw(st.integers(0, 3)),
            "parents_loaded": True, "ops": [list(o) for o in ops]}


_COLL_OPS = ["del_attr", "del_attr", "expire_attr", "expire_attr", "refresh_attr", "rollback"] + ["append"] * 3 + ["insert", "setitem", "remove", "remove", "pop", "extend", "replace", "replace", "clear", "child_set", "child_clear", "flush", "flush", "commit", "expire", "read"]


_ATTR_LEVEL = ["del_attr", "del_attr", "expire_attr", "expire_attr", "refresh_attr", "rollback"]
_KIND_POOL = sorted(KINDS) + ["o2m_list", "o2m_set", "dict", "m2m_list"] + ["nb_list", "nb_set", "nb_dict"] * 2  # no-backref kinds carry the attribute-level ops


@st.composite
def _coll_programs(draw):
    kind = draw(st.sampled_from(_KIND_POOL))
    nb = kind.startswith("nb_")
    names = [o for o in _COLL_OPS if nb or o not in _ATTR_LEVEL] + (["del_discard"] * 3 if nb else [])
    raw = draw(st.lists(st.tuples(st.sampled_from(names), _small, _small, st.lists(_small, max_size=4)), min_size=1, max_size=20))
    ops = []
    for o in raw:
        if o[0] == "del_discard":
            # macro: load, `del obj.coll`, discard the change (attribute-level expire / refresh / rollback / full expire), look again
            ops.append(["read", 0, 0, []])
            ops.append(["del_attr", 0, 0, []])
            ops.append([["expire_attr", "refresh_attr", "expire_attr", "refresh_attr", "rollback", "expire"][o[1] % 6], 0, 0, []])
            ops.append(["read", 0, 0, []])
        else:
            ops.append(list(o))
    return {"kind": kind, "start": draw(st.sampled_from(["new", "loaded", "expired"])), "npersist": draw(st.integers(0, 5)),
            "members": draw(st.lists(_small, max_size=4)), "ops": ops[:24]}


def subs(tier):
    return [
        Generated("scalar", check_scalar, strategy=_scalar_programs(), quick=700, thorough=40000),
        Generated("ref", check_ref, strategy=_ref_programs(), quick=600, thorough=30000),
        Generated("coll", check_coll, strategy=_coll_programs(), quick=900, thorough=40000),
    ]
