"""C55 child interpreter: runs the op programs against the prebuilt COMPILED
extensions.  Protocol: one JSON object per line on stdin
``{"fam": <family>, "case": <program>}`` -> one JSON line on the private
result pipe ``{"trace": [...]}`` or ``{"error": "<traceback>"}`` (harness
problem inside the child).  Exits on EOF (parent gone)."""
from __future__ import annotations

import json
import os
import sys
import traceback


def main():
    # keep the protocol channel private: anything printed by library code goes to stderr
    out = os.fdopen(os.dup(1), "w", buffering=1)
    os.dup2(2, 1)
    sys.stdout = sys.stderr
    try:
        from vf import purehook

        build = purehook.install("compiled")
        from checks import _c55_interp as interp

        info = interp.build_info()
        out.write(json.dumps({"hello": build, "compiled": info, "pid": os.getpid()}) + "\n")
    except Exception:
        out.write(json.dumps({"error": traceback.format_exc()}) + "\n")
        return 2
    for line in sys.stdin:
        line = line.strip()
        if not line:
            continue
        try:
            req = json.loads(line)
            if req.get("quit"):
                break
            trace = interp.run(req["fam"], req["case"])
            out.write(json.dumps({"trace": trace}) + "\n")
        except Exception:
            out.write(json.dumps({"error": traceback.format_exc()[-3000:]}) + "\n")
    return 0


if __name__ == "__main__":
    sys.exit(main())
