"""C31 - flush emits statements in an order that satisfies every constraint.

Histories over the E-ORM universe (checks/_orm_flush.py) whose pending state is
constraint-valid by construction (the reference model gives every child of a
NOT NULL schema a parent before each flush, never deletes a row that would stay
referenced, keeps the adjacency list a forest).  One flush mixes inserts,
deletes (explicit, cascaded, orphans), re-parenting, key switches (ON UPDATE
CASCADE) and post_update cycles (Parent.favorite).

* ``enforced``: SQLite with ``PRAGMA foreign_keys=ON`` (immediate checks, also
  between the rows of one executemany batch) and NOT NULL foreign keys: no
  flush may raise IntegrityError, and the rows must equal the model.
* ``monitor``: foreign keys *not* enforced; after every statement of every
  flush the whole database is read back through the same DBAPI connection and
  judged by a shadow catalog with immediate-constraint semantics (what
  PostgreSQL / MariaDB would check): no row may reference an absent row, no
  NOT NULL column may be NULL.  The statement order is recorded.
"""
from __future__ import annotations

import warnings

from hypothesis import strategies as st

from checks import _orm_flush as E
from vf.api import Enumerated, Generated

PROPERTY = "C31"
LEVEL = "exploration"
RULE = (
    "case = mapping config (Parent/Child/SubChild/Tag with nullable or NOT NULL FK, natural key with ON UPDATE CASCADE, post_update "
    "favourite; or adjacency-list Node) + history of <=40 ops with few intermediate flushes. Non-trivial: some flush emitted >=3 DML "
    "statements over >=2 dependent tables (or >=2 statements on the self-referential table) and contained a delete or a re-parenting, "
    "or the scenario class in which an orphan carrying loaded dependents enters the flush only while a deleted parent is pre-sorted, "
    "or a flush in which a persistent row hands a primary-key / UNIQUE (single or composite) value over to a new row of the same table; "
    "distinct = canonical JSON of (config, ops)"
)
ASSUMPTIONS = [
    "SQLite only: immediate FK checks come from PRAGMA foreign_keys=ON; PostgreSQL/MariaDB semantics are represented by the shadow "
    "check of the 'monitor' sub-check at statement granularity (rows inside one executemany batch are judged only by the 'enforced' sub-check)",
    "constraint-validity of the pending state is established by the reference model of checks/_orm_flush.py (same domain restrictions as C30)",
    "passive_updates=False (ORM-propagated key switches) is excluded: it is documented for backends without FK enforcement",
    "known findings excluded by construction as in C30 (adjacency-list re-arrangement raising CircularDependencyError, delete-orphan cases)",
]

C31_CODES = [
    "hand", "hand", "hand", "ucode", "ucode", "new", "new", "new", "add", "set", "append", "append", "append", "remove", "remove", "replace", "replace", "clear",
    "setparent", "setparent", "setparent", "clearparent", "tagadd", "tagadd", "tagremove", "pk", "pk", "fav", "fav",
    "delete", "delete", "delete", "delete", "flush", "commit", "rollback", "nested", "release", "read", "read", "expire",
]


small = st.integers(0, 15)


def _op(codes):
    return st.tuples(st.sampled_from(codes), small, small, small).map(list)


@st.composite
def _fav_ops(draw):
    """post_update favourite set and flushed; later, inside ONE flush, it is re-pointed or cleared and the old target deleted"""
    filler = [c for c in C31_CODES if c not in ("flush", "commit", "rollback", "nested", "release", "fav", "delete")]
    ops = [["new", 0, draw(small), 0], ["new", 1, draw(small), 0], ["new", 1, draw(small), 0], ["new", 1, draw(small), 0], ["new", 0, draw(small), 0],
           ["append", 0, 0, 0], ["append", 0, 1, 0], ["append", draw(small), 2, 0]]
    ops += draw(st.lists(_op(E.SETUP_CODES), min_size=0, max_size=3))
    ops.append(["fav", 0, draw(st.integers(0, 1)), 1])
    ops.append(draw(st.sampled_from([["commit", 0, 0, 0], ["flush", 0, 0, 0]])))
    ops += draw(st.lists(_op(filler), min_size=0, max_size=2))
    ops.append(["fav", 0, draw(small), draw(st.sampled_from([0, 0, 1, 1, 3]))])  # None, another own child, any child
    ops += draw(st.lists(_op(filler), min_size=0, max_size=2))
    ops += [["delete", draw(st.sampled_from([1, 2, 1, 2, 0, 3, 4])), 0, 0], ["delete", draw(st.integers(0, 4)), 0, 0]]
    ops += draw(st.lists(_op(C31_CODES), min_size=0, max_size=6))
    return ops[:40]


@st.composite
def _cases(draw, fk_on):
    cfg = dict(draw(E.cfg_strategy("c31")))
    cfg["fk_on"] = fk_on
    if not fk_on:
        cfg["natpk"] = None  # ON UPDATE CASCADE needs enforcement
    cfg["eoc"] = draw(st.booleans())
    if draw(st.integers(0, 9)) < 3:
        cfg.update(fam="pct", fav=True, autoflush=draw(st.sampled_from([False, False, True])))
        for k, v in (("fk_nullable", True), ("inh", False), ("natpk", None), ("m2m_coll", "list"), ("m2m_bidir", "backref")):
            cfg.setdefault(k, v)
        return {"cfg": E.norm_cfg(cfg), "ops": draw(_fav_ops())}
    return {"cfg": E.norm_cfg(cfg), "ops": draw(E.ops_strategy(C31_CODES))}


class _Monitor:
    def __init__(self, it, shadow):
        from sqlalchemy import event

        self.it = it
        self.shadow = shadow
        self.in_flush = False
        self.stmts = []  # (verb, table) of the flush in progress
        self.rich = False
        self.max_stmts = 0
        self.checked = 0
        event.listen(it.session, "before_flush", self._before)
        event.listen(it.engine, "after_cursor_execute", self._after_exec)
        it.on_flush = self._flush_done

    def _before(self, session, ctx_, instances):
        self.in_flush = True
        del self.stmts[:]

    def _after_exec(self, conn, cursor, statement, parameters, context, executemany):
        if not self.in_flush:
            return
        w = statement.strip().split()
        verb = w[0].upper()
        if verb not in ("INSERT", "UPDATE", "DELETE"):
            return
        table = w[2] if verb in ("INSERT", "DELETE") else w[1]
        self.stmts.append((verb, table))
        if self.shadow:
            got, _ = E.observe(conn.connection.dbapi_connection, self.it.U)
            self.checked += 1
            bad = E.integrity_problems(got, self.it.U)
            if bad:
                self.it.viol("order/reference-to-absent-row-mid-flush",
                             f"after statement #{len(self.stmts)} {verb} {table} of a flush the database is not constraint-valid: {bad[:4]}; "
                             f"statements so far: {self.stmts}", observed=bad)

    def _flush_done(self, kinds, mappers):
        self.in_flush = False
        tables = {t for _, t in self.stmts}
        dep = (len(tables) >= 2 and tables != {"parent", "tag"}) or (tables == {"node"} and len(self.stmts) >= 2)
        n = len(self.stmts)
        self.max_stmts = max(self.max_stmts, n)
        if dep and (n >= 3 or tables == {"node"}) and kinds & {"delete", "reparent", "remove", "clear", "replace", "clearparent"}:
            self.rich = True


def _check(case, ctx, shadow):
    holder = []
    mon = None
    try:
        U = E.build_universe(E.norm_cfg(case["cfg"]))
        it = E.Interp(U, ctx, prop="C31", pinned=bool(case.get("pinned")), check_reload=False)
        holder.append(it)
        it.integrity_is_violation = True
        mon = _Monitor(it, shadow)
        try:
            it.run(case["ops"])
            with warnings.catch_warnings():
                warnings.simplefilter("ignore")
                it.step(["commit", 0, 0, 0])
        finally:
            it.close()
    finally:
        it = holder[0] if holder else None
        if it is None or mon is None:
            ctx.note(case, False, classes=["raised"])
        else:
            cfg = it.U.cfg
            cls = [f"fam={cfg['fam']}", f"cascade={cfg['cascade']}", f"bidir={cfg['bidir']}"]
            if "scenario" in case:
                cls.append("scenario=" + case["scenario"])
            cls.append("flush-statements=" + ("0-2" if mon.max_stmts <= 2 else "3-5" if mon.max_stmts <= 5 else "6-9" if mon.max_stmts <= 9 else "10+"))
            for k in ("orphan-delete", "pk-change-flush", "mixed-flush", "repair-parent", "savepoint-depth-1", "delete-favourite-with-its-holder",
                      "repoint-favourite-and-delete-old-target", "null-favourite-and-delete-old-target",
                      "unique-handover-pk", "unique-handover-single", "unique-handover-composite"):
                if k in it.classes:
                    cls.append(k)
            if not cfg.get("fk_nullable", True):
                cls.append("fk-not-null")
            if cfg.get("fav"):
                cls.append("post_update-favourite")
            if cfg.get("natpk"):
                cls.append("natural-key-on-update-cascade")
            ctx.info("statements_judged_by_shadow_catalog", mon.checked)
            ctx.note(case, mon.rich or any(c.startswith("unique-handover") for c in it.classes), classes=cls)


def check_enforced(case, ctx):
    _check(case, ctx, shadow=False)


def check_monitor(case, ctx):
    _check(case, ctx, shadow=True)


# ---- fixed scenarios x configuration grid (the shapes named in the design, enumerated)
_PCT_TEMPLATES = {
    # Parent p(0) with children c(1), c(2); the favourite (post_update cycle) is deleted together with its holder
    "favourite-cycle-delete": [["new", 0, 1, 0], ["new", 1, 1, 0], ["new", 1, 2, 0], ["append", 0, 0, 0], ["append", 0, 1, 0], ["fav", 0, 0, 1],
                               ["commit", 0, 0, 0], ["delete", 0, 0, 0]],
    # post_update many-to-one: favourite re-pointed (or cleared) and the old target deleted in the same flush:
    # UPDATE parent SET fav_ref must precede DELETE FROM child
    "favourite-repoint-and-delete-old-target": [["new", 0, 1, 0], ["new", 1, 1, 0], ["new", 1, 2, 0], ["append", 0, 0, 0], ["append", 0, 1, 0], ["fav", 0, 0, 1],
                                                ["commit", 0, 0, 0], ["fav", 0, 1, 1], ["delete", 1, 0, 0], ["new", 1, 3, 0], ["append", 0, 1, 0]],
    "favourite-null-and-delete-old-target": [["new", 0, 1, 0], ["new", 1, 1, 0], ["new", 1, 2, 0], ["append", 0, 0, 0], ["append", 0, 1, 0], ["fav", 0, 0, 1],
                                             ["flush", 0, 0, 0], ["fav", 0, 0, 0], ["set", 0, 2, 0], ["delete", 1, 0, 0]],
    # a persistent row gives up a UNIQUE value (single / composite) or its natural primary key and a new row takes it in the same flush
    "unique-handover-single": [["new", 2, 1, 0], ["new", 2, 2, 0], ["new", 0, 1, 0], ["commit", 0, 0, 0], ["set", 0, 1, 0], ["hand", 0, 0, 0], ["hand", 1, 1, 0]],
    "unique-handover-composite": [["new", 2, 1, 0], ["new", 2, 2, 3], ["new", 0, 1, 0], ["commit", 0, 0, 0], ["new", 1, 1, 0], ["hand", 0, 1, 1], ["hand", 1, 0, 1]],
    "unique-handover-pk": [["new", 0, 1, 0], ["new", 0, 2, 0], ["new", 1, 1, 0], ["append", 1, 0, 0], ["commit", 0, 0, 0], ["hand", 0, 0, 2], ["set", 0, 2, 0], ["hand", 1, 1, 2]],
    # re-parent the child, delete the old parent, add a new child in the same flush
    "reparent-and-delete-old-parent": [["new", 0, 1, 0], ["new", 0, 2, 0], ["new", 1, 1, 0], ["append", 0, 0, 0], ["commit", 0, 0, 0],
                                       ["append", 1, 0, 0], ["new", 1, 3, 0], ["append", 1, 1, 0], ["delete", 0, 0, 0]],
    # delete child and parent separately, tags involved
    "delete-child-then-parent-with-tags": [["new", 0, 1, 0], ["new", 1, 1, 0], ["new", 2, 1, 0], ["append", 0, 0, 0], ["tagadd", 0, 0, 1],
                                           ["commit", 0, 0, 0], ["delete", 1, 0, 0], ["delete", 0, 0, 0], ["new", 2, 2, 0]],
    # new parent + new children + move of an existing child in one flush, then key switch where configured
    "insert-subtree-and-move": [["new", 0, 1, 0], ["new", 1, 1, 0], ["append", 0, 0, 0], ["commit", 0, 0, 0], ["new", 0, 2, 1], ["new", 1, 2, 1],
                                ["append", 1, 1, 0], ["append", 1, 0, 0], ["pk", 0, 0, 0], ["add", 0, 0, 0], ["add", 0, 0, 0]],
    # late-discovered work: a child c(1) carrying loaded tags is removed from p(0).children (orphan / NULL-out) and p(0) is deleted, while a
    # sibling c(2) under another parent is dirty in a plain column only (its own collections unloaded).  The objects that need statement
    # ordering (c(1)'s association rows before its DELETE) enter the flush only while the deleted parent is pre-sorted, i.e. after every
    # dependency processor has already looked once at the mapper's dirty states and found nothing to do
    "orphan-with-loaded-tags-found-late": [["new", 0, 1, 0], ["new", 1, 1, 0], ["new", 1, 2, 0], ["new", 2, 1, 0], ["new", 0, 2, 0], ["new", 2, 2, 0],
                                           ["append", 0, 0, 0], ["append", 1, 1, 0], ["tagadd", 0, 0, 1], ["tagadd", 0, 1, 1], ["tagadd", 1, 1, 1],
                                           ["commit", 0, 0, 0], ["read", 1, -1, 0], ["remove", 0, 0, 0], ["set", 2, 1, 0], ["delete", 0, 0, 0]],
    "orphan-with-loaded-tags-found-late-owner-kept": [["new", 0, 1, 0], ["new", 1, 1, 0], ["new", 1, 2, 0], ["new", 2, 1, 0], ["new", 0, 2, 0], ["new", 1, 3, 0],
                                                      ["append", 0, 0, 0], ["append", 1, 1, 0], ["append", 1, 2, 0], ["tagadd", 0, 0, 1], ["tagadd", 2, 0, 1],
                                                      ["commit", 0, 0, 0], ["read", 1, -1, 0], ["set", 2, 1, 0], ["set", 5, 2, 0], ["remove", 0, 0, 0]],
    # replace a collection: one child leaves, one arrives, one stays
    "replace-collection": [["new", 0, 1, 0], ["new", 1, 1, 0], ["new", 1, 2, 0], ["new", 1, 3, 0], ["append", 0, 0, 0], ["append", 0, 1, 0],
                           ["commit", 0, 0, 0], ["replace", 0, 0, 6], ["delete", 0, 0, 0]],
}
_NODE_TEMPLATES = {
    # chain n0 <- n1 <- n2 <- n3 (depth 4); delete the root (cascade or NULL-out), add a node under a survivor
    "chain-delete-root": [["new", 0, 1, 0]] * 4 + [["append", 0, 0, 0], ["append", 1, 1, 0], ["append", 2, 2, 0], ["commit", 0, 0, 0], ["delete", 0, 0, 0]],
    "chain-delete-middle-and-regraft": [["new", 0, 1, 0]] * 4 + [["append", 0, 0, 0], ["append", 1, 1, 0], ["append", 2, 2, 0], ["commit", 0, 0, 0],
                                                                  ["append", 0, 2, 0], ["delete", 1, 0, 0], ["new", 0, 2, 0], ["append", 3, 3, 0]],
    "insert-chain-in-one-flush": [["new", 0, 1, 1]] * 4 + [["append", 0, 0, 0], ["append", 1, 1, 0], ["append", 2, 2, 0], ["add", 0, 0, 0]],
}


def _scenarios(tier):
    for fk_on in (True, False):
        for bidir in ("backref", "back_populates", "o2m_only", "m2o_only"):
            for cascade in ("default", "delete", "all", "all_orphan"):
                for coll in ("list", "set"):
                    for name, ops in _NODE_TEMPLATES.items():
                        yield {"scenario": name, "cfg": E.norm_cfg({"fam": "node", "coll": coll, "bidir": bidir, "cascade": cascade, "fk_on": fk_on}),
                               "ops": [list(o) for o in ops]}
                    for nullable in (True, False):
                        for name, ops in _PCT_TEMPLATES.items():
                            natpk = "passive" if (fk_on and name == "insert-subtree-and-move") else None
                            if name == "unique-handover-pk":
                                if not fk_on:
                                    continue  # (passive_updates=False leaves children dangling mid-flush by design: not judged by the monitor)
                                natpk = "passive"
                            yield {"scenario": name,
                                   "cfg": E.norm_cfg({"fam": "pct", "coll": coll, "bidir": bidir, "cascade": cascade, "fk_on": fk_on, "fk_nullable": nullable,
                                                      "fav": name.startswith("favourite-"), "inh": coll == "set", "natpk": natpk,
                                                      "m2m_coll": coll, "m2m_bidir": "backref" if bidir != "m2o_only" else "none"}),
                                   "ops": [list(o) for o in ops]}


def check_scenario(case, ctx):
    _check(case, ctx, shadow=not case["cfg"]["fk_on"])


def subs(tier):
    return [
        Enumerated("scenarios", check_scenario, cases=_scenarios),
        Generated("enforced", check_enforced, strategy=_cases(True), quick=320, thorough=30000, budget_s_quick=60.0),
        Generated("monitor", check_monitor, strategy=_cases(False), quick=240, thorough=20000, budget_s_quick=60.0),
    ]
