"""C50 - ordering lists and association proxies behave as their collection types.

(a) ``ordering_list('position', count_from=, reorder_on_append=)``: list-op
    programs against a model of (list contents, position of every child) that
    follows the module's documentation: append leaves an existing non-None
    position alone unless ``reorder_on_append``; insert / remove / pop /
    ``__setitem__`` / ``__delitem__`` / ``reorder()`` renumber; ``sort()`` /
    ``reverse()`` are plain ``list`` methods (not overridden, positions stay
    until ``reorder()``).
(b) association proxies (list->scalar with creator, set, dict over
    ``attribute_keyed_dict``, scalar): return values / exception types /
    contents equal a plain list / set / dict model of the proxied values;
    intermediary objects are created and removed 1:1 and untouched values keep
    their intermediary; after flush the association rows equal the model;
    reload reproduces the proxy.
"""
from __future__ import annotations

from hypothesis import strategies as st
from sqlalchemy import Column, ForeignKey, Integer, String, select
from sqlalchemy.ext.associationproxy import association_proxy
from sqlalchemy.ext.orderinglist import ordering_list
from sqlalchemy.orm import Session, attribute_keyed_dict, declarative_base, relationship

from vf import sautil
from vf.api import Generated, Violation

PROPERTY = "C50"
LEVEL = "exploration"
RULE = (
    "olist: programs of <=14 list ops (append new / append child taken from the other parent or re-append of a removed child, insert, remove, pop, "
    "setitem, slice set/del, del, extend, +=, clear, whole-collection assignment, sort, reverse, reorder, flush, commit+reload) on two parents of an "
    "ordering_list relationship with drawn count_from in {0,1,5} and reorder_on_append. proxy_list / proxy_set / proxy_dict / proxy_scalar: programs "
    "of <=14 ops of the builtin's API on an association proxy, plus flush and commit+reload. Non-trivial: olist program contains an op that "
    "requires renumbering (insert/delete not at the end, setitem, move between parents); proxy program contains an op that removes and creates "
    "intermediaries or must keep some intermediaries while changing others (slice replace, insert/delete not at the end, in-place setitem, *=2, "
    "set ops with partially overlapping argument, ^=, dict setitem on an existing key, mixed update/assignment) or a mutation after reload; "
    "distinct = canonical JSON of the program"
)
ASSUMPTIONS = [
    "ordering list model follows lib/sqlalchemy/ext/orderinglist.py: append keeps a non-None position unless reorder_on_append; sort()/reverse()/*= are not overridden and do not renumber",
    "slice indices for collection slice assignment are generated inside 0 <= start <= stop <= len with step None/1 (the instrumented-list slice path outside that domain is the C38 known finding)",
    "reload order is only compared when the model's positions are strictly increasing (otherwise ORDER BY position is ambiguous)",
    "set-proxy iteration order is unspecified: compared as sets; pop() may return any member",
    "SQLite in-memory engine; default cascades (removed children are kept with a NULL parent)",
]


# ------------------------------------------------------------------ (a) ordering list
_OL_FAMILIES = {}


def _ol_family(count_from, roa):
    key = (count_from, roa)
    if key in _OL_FAMILIES:
        return _OL_FAMILIES[key]
    Base = declarative_base()

    class Parent(Base):
        __tablename__ = "ol_parent"
        id = Column(Integer, primary_key=True)
        children = relationship(
            "Child", order_by="Child.position", backref="parent",
            collection_class=ordering_list("position", count_from=count_from, reorder_on_append=roa),
        )

    class Child(Base):
        __tablename__ = "ol_child"
        id = Column(Integer, primary_key=True)
        pid = Column(ForeignKey("ol_parent.id"))
        position = Column(Integer)
        tag = Column(Integer)

        def __repr__(self):
            return f"C{self.tag}@{self.position}"

    _OL_FAMILIES[key] = (Base, Parent, Child)
    return _OL_FAMILIES[key]


class _OLModel:
    """lists: two lists of child tags; pos: tag -> position (None = never ordered)"""

    def __init__(self, start, roa):
        self.start, self.roa = start, roa
        self.lists = [[], []]
        self.pos = {}
        self.free = []  # children removed one at a time (remove/pop/del i/setitem): they keep the position they had
        self.limbo = []  # children removed by a multi-element op (slice, clear, assignment): their position is unspecified, never reused

    def owner(self, tag):
        for i, lst in enumerate(self.lists):
            if tag in lst:
                return i
        return None

    def reorder(self, pi):
        for i, t in enumerate(self.lists[pi]):
            self.pos[t] = self.start + i

    def detach(self, tag, reorder=True):
        o = self.owner(tag)
        if o is not None:
            self.lists[o].remove(tag)
            if reorder:
                self.reorder(o)
        if tag in self.free:
            self.free.remove(tag)

    def append(self, pi, tag):
        self.detach(tag)  # backref removes it from the previous owner, which renumbers there
        self.lists[pi].append(tag)
        if self.pos.get(tag) is None or self.roa:
            self.pos[tag] = self.start + len(self.lists[pi]) - 1


def check_olist(case, ctx):
    count_from, roa = case["count_from"], case["roa"]
    Base, Parent, Child = _ol_family(count_from, roa)
    start = 0 if count_from is None else count_from
    m = _OLModel(start, roa)
    eng = sautil.mem_engine()
    Base.metadata.create_all(eng)
    sess = Session(eng)
    classes = set()
    nontrivial = False
    try:
        parents = [Parent(), Parent()]
        sess.add_all(parents)
        objs = {}  # tag -> Child
        ntag = [0]

        def new():
            t = ntag[0]
            ntag[0] += 1
            objs[t] = Child(tag=t)
            m.pos[t] = None
            return t

        def verify(where, op, neg=False):
            for pi in (0, 1):
                real = parents[pi].children
                got = [c.tag for c in real]
                if got != m.lists[pi]:
                    raise Violation(f"C50/olist/{op}/contents", f"{where}: parent {pi} list {got} != model {m.lists[pi]}", observed=got, expected=m.lists[pi])
                gp = [c.position for c in real]
                ep = [m.pos[t] for t in m.lists[pi]]
                if gp != ep:
                    sig = f"C50/olist/{op}/positions"
                    if op == "setitem" and neg and any(x is not None and x < start for x in gp):
                        sig = "C50/olist/setitem-negative-index/position-not-index"
                    raise Violation(sig, f"{where}: parent {pi} positions {gp} != model {ep} (children {got}, count_from={count_from}, reorder_on_append={roa})",
                                    observed=gp, expected=ep)

        for pi, k in enumerate(case["init"]):
            for _ in range(k):
                t = new()
                parents[pi].children.append(objs[t])
                m.append(pi, t)
        verify("init", "init")
        for step, opd in enumerate(case["ops"]):
            op, pi, a, b = opd[0], opd[1] % 2, opd[2], opd[3]
            lst = parents[pi].children
            ml = m.lists[pi]
            n = len(ml)
            where = f"step {step} {op}"
            classes.add(op)
            exp_exc = None
            got_exc = None

            def pick_existing(k):
                """a child not in this list: from the other parent or a removed one; else a new one"""
                cands = list(m.lists[1 - pi]) + list(m.free)
                return cands[k % len(cands)] if cands else new()

            if op == "append":
                t = new()
                lst.append(objs[t])
                m.append(pi, t)
            elif op == "append_existing":
                t = pick_existing(a)
                if m.pos.get(t) is not None:
                    nontrivial = True
                    classes.add("append-with-position")
                lst.append(objs[t])
                m.append(pi, t)
            elif op == "insert":
                t = new()
                idx = a
                lst.insert(idx, objs[t])
                ml.insert(idx, t)
                m.reorder(pi)
                if -n < idx < n:
                    nontrivial = True
            elif op == "remove":
                if n:
                    t = ml[a % n]
                    lst.remove(objs[t])
                    ml.remove(t)
                    m.free.append(t)
                    m.reorder(pi)
                    if a % n != n - 1:
                        nontrivial = True
                else:
                    t = new()
                    try:
                        lst.remove(objs[t])
                    except ValueError:
                        got_exc = "ValueError"
                    exp_exc = "ValueError"
            elif op == "pop":
                idx = a if b else -1
                try:
                    r = lst.pop(idx) if b else lst.pop()
                except IndexError:
                    got_exc = "IndexError"
                try:
                    t = ml.pop(idx)
                    m.free.append(t)
                    m.reorder(pi)
                    if got_exc is None and r is not objs[t]:
                        raise Violation("C50/olist/pop/return", f"{where}: pop returned {r!r}, model child {t}")
                    nontrivial = nontrivial or len(ml) > 0 and idx not in (-1, n - 1)
                except IndexError:
                    exp_exc = "IndexError"
            elif op == "setitem":
                t = new()
                idx = a
                if False and idx < 0 and -n <= idx and not case.get("pinned"):  # repaired in /repo (363183a): negative indexes are generated again
                    # confirmed finding C50/olist/setitem-negative-index: lst[-k] = x stores ordering_func(-k) (position -k) instead of the element's
                    # index.  Trigger replaced by the equivalent non-negative index; the pinned replay keeps the negative one.
                    ctx.exclude("OrderingList.__setitem__ with a negative index (known finding: position becomes the negative index)")
                    idx = idx % n
                neg_setitem = idx < 0
                try:
                    lst[idx] = objs[t]
                except IndexError:
                    got_exc = "IndexError"
                if -n <= idx < n:
                    old = ml[idx]
                    ml[idx] = t
                    m.free.append(old)
                    m.pos[t] = start + (idx % n)
                    nontrivial = True
                    if idx < 0:
                        classes.add("setitem-negative")
                else:
                    exp_exc = "IndexError"
                    del objs[t], m.pos[t]
            elif op == "setslice":
                lo, hi = sorted((a[0] % (n + 1), a[1] % (n + 1)))
                news = [new() for _ in range(b)]
                removed = ml[lo:hi]
                lst[lo:hi] = [objs[t] for t in news]
                ml[lo:hi] = news
                m.limbo.extend(removed)
                if removed or news:
                    m.reorder(pi)
                if removed and news:
                    nontrivial = True
            elif op == "delslice":
                lo, hi = sorted((a[0] % (n + 1), a[1] % (n + 1)))
                removed = ml[lo:hi]
                del lst[lo:hi]
                del ml[lo:hi]
                m.limbo.extend(removed)
                m.reorder(pi)
                if removed and hi < n:
                    nontrivial = True
            elif op == "delitem":
                idx = a
                try:
                    del lst[idx]
                except IndexError:
                    got_exc = "IndexError"
                try:
                    t = ml[idx]
                    del ml[idx]
                    m.free.append(t)
                    m.reorder(pi)
                    nontrivial = True
                except IndexError:
                    exp_exc = "IndexError"
            elif op in ("extend", "iadd"):
                news = [new() for _ in range(b)]
                if op == "extend":
                    lst.extend([objs[t] for t in news])
                else:
                    lst += [objs[t] for t in news]
                for t in news:
                    m.append(pi, t)
            elif op == "clear":
                lst.clear()
                m.limbo.extend(ml)
                del ml[:]
            elif op == "assign":
                # whole-collection assignment: members are appended one by one (documented append semantics)
                keep = [t for i, t in enumerate(ml) if (a[0] >> i) & 1]
                if a[1] % 2:
                    keep.reverse()
                news = [new() for _ in range(b)]
                newl = news[:1] + keep + news[1:]
                parents[pi].children = [objs[t] for t in newl]
                dropped = [t for t in ml if t not in newl]
                m.limbo.extend(dropped)
                del ml[:]
                for t in newl:
                    ml.append(t)
                    if m.pos.get(t) is None or roa:
                        m.pos[t] = start + len(ml) - 1
                lst = parents[pi].children
            elif op == "sort":
                lst.sort(key=lambda c: -c.tag)
                ml.sort(key=lambda t: -t)
            elif op == "reverse":
                lst.reverse()
                ml.reverse()
            elif op == "reorder":
                lst.reorder()
                m.reorder(pi)
            elif op == "flush":
                sess.flush()
                for qi in (0, 1):
                    rows = sess.execute(select(Child.tag, Child.position).where(Child.pid == parents[qi].id).order_by(Child.tag)).all()
                    exp = sorted((t, m.pos[t]) for t in m.lists[qi])
                    if [tuple(r) for r in rows] != exp:
                        raise Violation("C50/olist/flush/rows", f"{where}: parent {qi} rows (tag, position) {rows} != model {exp}", observed=str(rows), expected=exp)
            elif op == "reload":
                ok = all([m.pos[t] for t in l_] == sorted(set(m.pos[t] for t in l_)) and None not in [m.pos[t] for t in l_] for l_ in m.lists)
                if not ok:
                    classes.add("reload-skipped-ambiguous-order")
                else:
                    sess.commit()
                    sess.expire_all()
                    # free children may have been garbage collected from the identity map: keep strong refs via objs
                    classes.add("reload-done")
            else:
                raise ValueError(op)
            if exp_exc != got_exc:
                raise Violation(f"C50/olist/{op}/exception", f"{where}: raised {got_exc}, list model raises {exp_exc}", observed=got_exc, expected=exp_exc)
            verify(where, op, neg=op == "setitem" and neg_setitem)
        ctx.note(case, nontrivial, classes=classes)
    finally:
        sess.close()
        eng.dispose()


_idx = st.integers(-6, 6)


@st.composite
def _olist_programs(draw):
    ops = []
    for _ in range(draw(st.integers(3, 14))):
        op = draw(st.sampled_from(["append", "append", "append_existing", "insert", "insert", "remove", "pop", "setitem", "setslice", "delslice", "delitem",
                                   "extend", "iadd", "clear", "assign", "sort", "reverse", "reorder", "flush", "reload"]))
        pi = draw(st.integers(0, 1))
        if op in ("setslice", "delslice"):
            a, b = [draw(st.integers(0, 8)), draw(st.integers(0, 8))], draw(st.integers(0, 3))
        elif op == "assign":
            a, b = [draw(st.integers(0, 63)), draw(st.integers(0, 1))], draw(st.integers(0, 2))
        elif op in ("extend", "iadd"):
            a, b = 0, draw(st.integers(0, 3))
        elif op == "pop":
            a, b = draw(_idx), draw(st.integers(0, 2))
        else:
            a, b = draw(_idx), 0
        ops.append([op, pi, a, b])
    return {"count_from": draw(st.sampled_from([None, 0, 1, 5])), "roa": draw(st.booleans()), "init": [draw(st.integers(0, 5)), draw(st.integers(0, 3))], "ops": ops}


# ------------------------------------------------------------------ (b) association proxies: fixed family
PBase = declarative_base()


class Owner(PBase):
    __tablename__ = "ap_owner"
    id = Column(Integer, primary_key=True)
    items = relationship("Item", order_by="Item.id", cascade="all, delete-orphan")
    names = association_proxy("items", "name")
    tagobjs = relationship("Tag", collection_class=set, cascade="all, delete-orphan")
    tags = association_proxy("tagobjs", "name")
    notes = relationship("Note", collection_class=attribute_keyed_dict("key"), cascade="all, delete-orphan")
    texts = association_proxy("notes", "text", creator=lambda k, v: Note(key=k, text=v))
    profile = relationship("Profile", uselist=False, cascade="all, delete-orphan")
    bio = association_proxy("profile", "bio")


class Item(PBase):
    __tablename__ = "ap_item"
    id = Column(Integer, primary_key=True)
    oid = Column(ForeignKey("ap_owner.id"))
    name = Column(String)

    def __init__(self, name):
        self.name = name


class Tag(PBase):
    __tablename__ = "ap_tag"
    id = Column(Integer, primary_key=True)
    oid = Column(ForeignKey("ap_owner.id"))
    name = Column(String)

    def __init__(self, name):
        self.name = name


class Note(PBase):
    __tablename__ = "ap_note"
    id = Column(Integer, primary_key=True)
    oid = Column(ForeignKey("ap_owner.id"))
    key = Column(String)
    text = Column(String)


class Profile(PBase):
    __tablename__ = "ap_profile"
    id = Column(Integer, primary_key=True)
    oid = Column(ForeignKey("ap_owner.id"))
    bio = Column(String)

    def __init__(self, bio):
        self.bio = bio


VALS = ["a", "b", "c", "d", "e"]


def _call(fn):
    """(kind, value): ('ret', v) or ('exc', TypeName) for the exception types a builtin collection raises"""
    try:
        return ("ret", fn())
    except (IndexError, ValueError, KeyError, TypeError, NotImplementedError) as e:
        return ("exc", type(e).__name__)


def _setup():
    eng = sautil.mem_engine()
    PBase.metadata.create_all(eng)
    sess = Session(eng)
    o = Owner()
    sess.add(o)
    return eng, sess, o


def _cmp(where, op, fam, got, exp):
    if got != exp:
        kind = "exception" if "exc" in (got[0], exp[0]) else "return"
        raise Violation(f"C50/{fam}/{op}/{kind}", f"{where}: proxy gave {got!r}, builtin model gave {exp!r}", observed=repr(got), expected=repr(exp))


def check_proxy_list(case, ctx):
    eng, sess, o = _setup()
    classes = set()
    nontrivial = False
    reloaded = False
    try:
        model = []  # proxied values
        ident = []  # intermediary objects, parallel to model (identity expectations)
        for v in case["init"]:
            o.names.append(VALS[v % 5])
            model.append(VALS[v % 5])
        ident = list(o.items)
        seen_ids = {id(x) for x in ident}
        keep = list(ident)  # strong refs so id() stays unique

        def sync(where, op, expect_ident):
            """expect_ident: list of (object or None=must be a brand new intermediary)"""
            nonlocal ident
            real = list(o.items)
            vals = [i.name for i in real]
            if vals != model or list(o.names) != model or len(o.names) != len(model):
                raise Violation(f"C50/proxy_list/{op}/contents", f"{where}: intermediaries {vals} / proxy {list(o.names)} != model {model}", observed=vals, expected=model)
            if len(real) != len(expect_ident):
                raise Violation(f"C50/proxy_list/{op}/intermediary-count", f"{where}: {len(real)} intermediaries for {len(expect_ident)} values")
            for i, (r, e) in enumerate(zip(real, expect_ident)):
                if e is None:
                    if id(r) in seen_ids:
                        raise Violation(f"C50/proxy_list/{op}/intermediary-reused", f"{where}: position {i} should hold a new intermediary but reuses an existing object")
                    seen_ids.add(id(r))
                    keep.append(r)
                elif r is not e:
                    raise Violation(f"C50/proxy_list/{op}/intermediary-identity", f"{where}: position {i} ({model[i]!r}) no longer held by its original intermediary")
            ident = real

        for step, opd in enumerate(case["ops"]):
            op, a, b, vs = opd
            where = f"step {step} {op}"
            classes.add(op)
            p = o.names
            n = len(model)
            v = VALS[b % 5]
            vals = [VALS[x % 5] for x in vs]
            exp_ident = list(ident)
            if op == "append":
                _cmp(where, op, "proxy_list", _call(lambda: p.append(v)), _call(lambda: model.append(v)))
                exp_ident.append(None)
            elif op == "insert":
                _cmp(where, op, "proxy_list", _call(lambda: p.insert(a, v)), _call(lambda: model.insert(a, v)))
                exp_ident.insert(a, None)
                if n and -n <= a < n:
                    nontrivial = True
            elif op == "remove":
                i = model.index(v) if v in model else None
                _cmp(where, op, "proxy_list", _call(lambda: p.remove(v)), _call(lambda: model.remove(v)))
                if i is not None:
                    del exp_ident[i]
            elif op == "pop":
                _cmp(where, op, "proxy_list", _call(lambda: p.pop(a)), _call(lambda: model.pop(a)))
                if -n <= a < n:
                    del exp_ident[a]
            elif op == "pop0":
                _cmp(where, op, "proxy_list", _call(lambda: p.pop()), _call(lambda: model.pop()))
                if n:
                    del exp_ident[-1]
            elif op == "setitem":
                _cmp(where, op, "proxy_list", _call(lambda: p.__setitem__(a, v)), _call(lambda: model.__setitem__(a, v)))
                if -n <= a < n:
                    nontrivial = True
            elif op == "setslice":
                lo, hi = sorted((a[0] % (n + 1), a[1] % (n + 1)))
                _cmp(where, op, "proxy_list", _call(lambda: p.__setitem__(slice(lo, hi), vals)), _call(lambda: model.__setitem__(slice(lo, hi), vals)))
                exp_ident[lo:hi] = [None] * len(vals)
                if hi > lo and vals:
                    nontrivial = True
                    classes.add("slice-replace")
            elif op == "setslice_step":
                lo = a[0] % (n + 1)
                sl = slice(lo, None, 2)
                k = len(model[sl])
                use = (vals * 3)[: k if a[1] % 3 else k + 1]
                _cmp(where, op, "proxy_list", _call(lambda: p.__setitem__(sl, use)), _call(lambda: model.__setitem__(sl, use)))
            elif op == "delslice":
                lo, hi = sorted((a[0] % (n + 1), a[1] % (n + 1)))
                _cmp(where, op, "proxy_list", _call(lambda: p.__delitem__(slice(lo, hi))), _call(lambda: model.__delitem__(slice(lo, hi))))
                del exp_ident[lo:hi]
                if lo < hi < n:
                    nontrivial = True
            elif op == "delitem":
                _cmp(where, op, "proxy_list", _call(lambda: p.__delitem__(a)), _call(lambda: model.__delitem__(a)))
                if -n <= a < n:
                    del exp_ident[a]
            elif op == "extend":
                _cmp(where, op, "proxy_list", _call(lambda: p.extend(vals)), _call(lambda: model.extend(vals)))
                exp_ident += [None] * len(vals)
            elif op == "iadd":
                r = _call(lambda: p.__iadd__(vals))
                model.extend(vals)
                if r[0] != "ret" or r[1] is not p:
                    raise Violation("C50/proxy_list/iadd/return", f"{where}: += returned {r!r}")
                exp_ident += [None] * len(vals)
            elif op == "imul":
                k = a % 3
                r = _call(lambda: p.__imul__(k))
                model[:] = model * k
                if k == 2 and n:
                    nontrivial = True
                if r[0] != "ret" or r[1] is not p:
                    raise Violation("C50/proxy_list/imul/return", f"{where}: *= returned {r!r}")
                exp_ident = (exp_ident + [None] * len(model))[: len(model)] if k else []
            elif op == "clear":
                _cmp(where, op, "proxy_list", _call(lambda: p.clear()), _call(lambda: model.clear()))
                exp_ident = []
            elif op == "assign":
                o.names = vals
                model[:] = vals
                exp_ident = None
            elif op == "reads":
                got = [_call(lambda: p.count(v)), _call(lambda: p.index(v)), _call(lambda: v in p), _call(lambda: p[a]), _call(lambda: p[a:]), _call(lambda: len(p)),
                       _call(lambda: list(p)), _call(lambda: p == list(model)), _call(lambda: p != list(model)), _call(lambda: p + ["z"]), _call(lambda: ["z"] + p),
                       _call(lambda: p * 2), _call(lambda: p.copy()), _call(lambda: repr(p)), _call(lambda: p < ["c"]), _call(lambda: list(reversed(p))),
                       _call(lambda: bool(p)), _call(lambda: p.index(v, 1)), _call(lambda: hash(p))]
                ml = model
                exp = [_call(lambda: ml.count(v)), _call(lambda: ml.index(v)), _call(lambda: v in ml), _call(lambda: ml[a]), _call(lambda: ml[a:]), _call(lambda: len(ml)),
                       _call(lambda: list(ml)), ("ret", True), ("ret", False), _call(lambda: ml + ["z"]), _call(lambda: ["z"] + ml),
                       _call(lambda: ml * 2), _call(lambda: ml.copy()), _call(lambda: repr(ml)), _call(lambda: ml < ["c"]), _call(lambda: list(reversed(ml))),
                       _call(lambda: bool(ml)), _call(lambda: ml.index(v, 1)), _call(lambda: hash(ml))]
                for i, (g, e) in enumerate(zip(got, exp)):
                    _cmp(where + f" read#{i}", "reads", "proxy_list", g, e)
            elif op == "sortreverse":
                for nm in ("sort", "reverse"):
                    r = _call(getattr(p, nm))
                    if r != ("exc", "NotImplementedError"):
                        raise Violation(f"C50/proxy_list/{nm}/documented-unsupported", f"{where}: {nm}() gave {r!r}, documented as not supported")
            elif op == "flush":
                sess.flush()
                rows = [r[0] for r in sess.execute(select(Item.name).where(Item.oid == o.id).order_by(Item.id))]
                if sorted(rows) != sorted(model):
                    raise Violation("C50/proxy_list/flush/rows", f"{where}: association rows {sorted(rows)} != model {sorted(model)}", observed=sorted(rows), expected=sorted(model))
            elif op == "reload":
                # list order after reload = ORDER BY id = insertion order of intermediaries; only comparable when that is the model order
                sess.flush()
                ids = [i.id for i in o.items]
                sess.commit()
                sess.expire_all()
                if ids == sorted(ids):
                    if list(o.names) != model:
                        raise Violation("C50/proxy_list/reload/contents", f"{where}: reloaded proxy {list(o.names)} != model {model}", observed=list(o.names), expected=model)
                else:
                    order = sorted(range(len(ids)), key=lambda i: ids[i])
                    model[:] = [model[i] for i in order]
                ident = list(o.items)
                seen_ids.update(id(x) for x in ident)
                keep.extend(ident)
                exp_ident = list(ident)
                reloaded = True
                classes.add("reload")
                continue
            else:
                raise ValueError(op)
            if op in ("append", "insert", "setitem", "setslice", "extend", "remove") and reloaded:
                nontrivial = True
            if exp_ident is None:
                exp_ident = [None] * len(model)
                # whole-collection assignment replaces the intermediaries wholesale (documented: _bulk_replace == clear + extend)
                seen_before = set(seen_ids)
                real = list(o.items)
                if [i.name for i in real] != model:
                    raise Violation("C50/proxy_list/assign/contents", f"{where}: {[i.name for i in real]} != {model}")
                ident = real
                seen_ids.update(id(x) for x in real)
                keep.extend(real)
                continue
            sync(where, op, exp_ident)
        ctx.note(case, nontrivial, classes=classes)
    finally:
        sess.close()
        eng.dispose()


@st.composite
def _plist_programs(draw):
    ops = []
    vi = st.integers(0, 4)
    for _ in range(draw(st.integers(3, 14))):
        op = draw(st.sampled_from(["append", "append", "insert", "remove", "pop", "pop0", "setitem", "setslice", "setslice", "setslice_step", "delslice", "delitem",
                                   "extend", "iadd", "imul", "clear", "assign", "reads", "reads", "sortreverse", "flush", "reload"]))
        if op in ("setslice", "delslice", "setslice_step"):
            a = [draw(st.integers(0, 8)), draw(st.integers(0, 8))]
        else:
            a = draw(st.integers(-5, 5))
        ops.append([op, a, draw(vi), draw(st.lists(vi, max_size=3))])
    return {"init": draw(st.lists(vi, min_size=1, max_size=5)), "ops": ops}


# ---- set proxy
def check_proxy_set(case, ctx):
    eng, sess, o = _setup()
    classes = set()
    nontrivial = False
    reloaded = False
    try:
        model = set()
        for v in case["init"]:
            o.tags.add(VALS[v % 5])
            model.add(VALS[v % 5])
        by_val = {t.name: t for t in o.tagobjs}
        keep = list(by_val.values())

        def sync(where, op, before):
            nonlocal by_val
            real = list(o.tagobjs)
            names = sorted(t.name for t in real)
            if names != sorted(model) or set(o.tags) != model or len(o.tags) != len(model):
                raise Violation(f"C50/proxy_set/{op}/contents", f"{where}: intermediaries {names} / proxy {sorted(o.tags)} != model {sorted(model)}", observed=names, expected=sorted(model))
            cur = {t.name: t for t in real}
            for val in model & before:
                if cur[val] is not by_val[val]:
                    raise Violation(f"C50/proxy_set/{op}/intermediary-identity", f"{where}: untouched value {val!r} got a different intermediary")
            for val in model - before:
                if any(cur[val] is k for k in keep):
                    raise Violation(f"C50/proxy_set/{op}/intermediary-reused", f"{where}: new value {val!r} reuses an old intermediary")
            keep.extend(cur.values())
            by_val = cur

        for step, opd in enumerate(case["ops"]):
            op, b, vs, kind = opd
            where = f"step {step} {op}"
            classes.add(op)
            p = o.tags
            v = VALS[b % 5]
            vals = [VALS[x % 5] for x in vs]
            arg = {"list": list(vals), "set": set(vals), "frozenset": frozenset(vals), "tuple": tuple(vals)}[kind]
            sarg = set(vals)
            before = set(model)
            touched = set()  # values removed then re-added inside one op need a new intermediary: none of the set ops do that
            if op in ("add", "remove", "discard"):
                _cmp(where, op, "proxy_set", _call(lambda: getattr(p, op)(v)), _call(lambda: getattr(model, op)(v)))
            elif op == "pop":
                r = _call(lambda: p.pop())
                if not model:
                    _cmp(where, op, "proxy_set", r, ("exc", "KeyError"))
                else:
                    if r[0] != "ret" or r[1] not in model:
                        raise Violation("C50/proxy_set/pop/return", f"{where}: pop gave {r!r}, model {sorted(model)}")
                    model.remove(r[1])
            elif op == "clear":
                _cmp(where, op, "proxy_set", _call(lambda: p.clear()), _call(lambda: model.clear()))
            elif op in ("update", "difference_update", "intersection_update", "symmetric_difference_update"):
                _cmp(where, op, "proxy_set", _call(lambda: getattr(p, op)(arg)), _call(lambda: getattr(model, op)(arg)))
                if op == "symmetric_difference_update" and (sarg & before) and (sarg - before):
                    nontrivial = True
                    classes.add("remove+create")
                if op == "intersection_update" and (before & sarg) and (before - sarg) or op == "update" and (sarg & before) and (sarg - before) \
                        or op == "difference_update" and (before & sarg) and (before - sarg):
                    nontrivial = True
                    classes.add("partial-overlap")
            elif op in ("ior", "iand", "isub", "ixor"):
                import operator as _o
                f = getattr(_o, op)
                r = _call(lambda: f(p, sarg))
                f(model, sarg)
                if r[0] != "ret" or r[1] is not p:
                    raise Violation(f"C50/proxy_set/{op}/return", f"{where}: in-place operator returned {r!r}")
                if op == "ixor" and (sarg & before) and (sarg - before):
                    nontrivial = True
                    classes.add("remove+create")
                if op != "ixor" and (sarg & before) and (sarg - before) and (before - sarg):
                    nontrivial = True
                    classes.add("partial-overlap")
            elif op == "assign":
                o.tags = arg
                model.clear()
                model.update(arg)
                if (sarg & before) and (sarg - before) and (before - sarg):
                    nontrivial = True
                    classes.add("remove+create")
            elif op == "reads":
                got = [_call(lambda: v in p), _call(lambda: len(p)), _call(lambda: p == set(model)), _call(lambda: p != set(model)), _call(lambda: p.union(arg)),
                       _call(lambda: p.intersection(arg)), _call(lambda: p.difference(arg)), _call(lambda: p.symmetric_difference(arg)), _call(lambda: p | sarg),
                       _call(lambda: p & sarg), _call(lambda: p - sarg), _call(lambda: p ^ sarg), _call(lambda: p.issubset(arg)), _call(lambda: p.issuperset(arg)),
                       _call(lambda: p <= sarg), _call(lambda: p < sarg), _call(lambda: p >= sarg), _call(lambda: p > sarg), _call(lambda: p.copy()), _call(lambda: bool(p)),
                       _call(lambda: p.isdisjoint(arg)), _call(lambda: hash(p)), _call(lambda: set(iter(p))), _call(lambda: p | list(vals))]
                ms = model
                exp = [_call(lambda: v in ms), _call(lambda: len(ms)), ("ret", True), ("ret", False), _call(lambda: ms.union(arg)),
                       _call(lambda: ms.intersection(arg)), _call(lambda: ms.difference(arg)), _call(lambda: ms.symmetric_difference(arg)), _call(lambda: ms | sarg),
                       _call(lambda: ms & sarg), _call(lambda: ms - sarg), _call(lambda: ms ^ sarg), _call(lambda: ms.issubset(arg)), _call(lambda: ms.issuperset(arg)),
                       _call(lambda: ms <= sarg), _call(lambda: ms < sarg), _call(lambda: ms >= sarg), _call(lambda: ms > sarg), _call(lambda: ms.copy()), _call(lambda: bool(ms)),
                       _call(lambda: ms.isdisjoint(arg)), _call(lambda: hash(ms)), _call(lambda: set(iter(ms))), _call(lambda: ms | list(vals))]
                for i, (g, e) in enumerate(zip(got, exp)):
                    _cmp(where + f" read#{i}", "reads", "proxy_set", g, e)
            elif op == "flush":
                sess.flush()
                rows = sorted(r[0] for r in sess.execute(select(Tag.name).where(Tag.oid == o.id)))
                if rows != sorted(model):
                    raise Violation("C50/proxy_set/flush/rows", f"{where}: association rows {rows} != model {sorted(model)}", observed=rows, expected=sorted(model))
            elif op == "reload":
                sess.commit()
                sess.expire_all()
                if set(o.tags) != model:
                    raise Violation("C50/proxy_set/reload/contents", f"{where}: reloaded proxy {sorted(o.tags)} != model {sorted(model)}")
                by_val = {t.name: t for t in o.tagobjs}
                keep.extend(by_val.values())
                reloaded = True
                continue
            else:
                raise ValueError(op)
            if reloaded and model != before:
                nontrivial = True
            sync(where, op, before)
        ctx.note(case, nontrivial, classes=classes)
    finally:
        sess.close()
        eng.dispose()


@st.composite
def _pset_programs(draw):
    vi = st.integers(0, 4)
    ops = []
    for _ in range(draw(st.integers(3, 14))):
        op = draw(st.sampled_from(["add", "add", "remove", "discard", "pop", "clear", "update", "difference_update", "intersection_update",
                                   "symmetric_difference_update", "symmetric_difference_update", "ior", "iand", "isub", "ixor", "ixor", "assign", "reads", "reads", "flush", "reload"]))
        ops.append([op, draw(vi), draw(st.lists(vi, max_size=4)), draw(st.sampled_from(["list", "set", "frozenset", "tuple"]))])
    return {"init": draw(st.lists(vi, min_size=1, max_size=4)), "ops": ops}


# ---- dict proxy
def check_proxy_dict(case, ctx):
    eng, sess, o = _setup()
    classes = set()
    nontrivial = False
    reloaded = False
    try:
        model = {}
        for k, v in case["init"]:
            o.texts[VALS[k % 5]] = f"t{v}"
            model[VALS[k % 5]] = f"t{v}"
        by_key = dict(o.notes)
        keep = list(by_key.values())

        def sync(where, op, before_keys):
            nonlocal by_key
            real = dict(o.notes)
            got = {k: n.text for k, n in real.items()}
            if got != model or dict(o.texts) != model or len(o.texts) != len(model):
                raise Violation(f"C50/proxy_dict/{op}/contents", f"{where}: intermediaries {got} / proxy {dict(o.texts)} != model {model}", observed=got, expected=model)
            for k, n in real.items():
                if n.key != k:
                    raise Violation(f"C50/proxy_dict/{op}/key-mismatch", f"{where}: intermediary under {k!r} has key {n.key!r}")
                if k in before_keys and n is not by_key[k]:
                    raise Violation(f"C50/proxy_dict/{op}/intermediary-identity", f"{where}: key {k!r} kept but its intermediary was replaced")
                if k not in before_keys and any(n is x for x in keep):
                    raise Violation(f"C50/proxy_dict/{op}/intermediary-reused", f"{where}: new key {k!r} reuses an old intermediary")
            keep.extend(real.values())
            by_key = real

        for step, opd in enumerate(case["ops"]):
            op, ki, vi_, pairs, form = opd
            where = f"step {step} {op}"
            classes.add(op)
            p = o.texts
            k, v = VALS[ki % 5], f"t{vi_}"
            items = [(VALS[a % 5], f"t{b}") for a, b in pairs]
            before = set(model)
            removed_keys = set()
            if op == "setitem":
                _cmp(where, op, "proxy_dict", _call(lambda: p.__setitem__(k, v)), _call(lambda: model.__setitem__(k, v)))
                if k in before:
                    nontrivial = True
                    classes.add("setitem-existing")
            elif op == "delitem":
                _cmp(where, op, "proxy_dict", _call(lambda: p.__delitem__(k)), _call(lambda: model.__delitem__(k)))
            elif op == "pop":
                _cmp(where, op, "proxy_dict", _call(lambda: p.pop(k)), _call(lambda: model.pop(k)))
            elif op == "pop_default":
                if False and k not in model and not case.get("pinned"):  # repaired in /repo (fix: 74f4256): generated again
                    # confirmed finding C50/proxy_dict/pop-default: pop(missing_key, default) passes the default through the value getter
                    ctx.exclude("_AssociationDict.pop(missing key, non-None default) (known finding: AttributeError from the getter)")
                else:
                    try:
                        got = _call(lambda: p.pop(k, "dflt"))
                    except AttributeError as e:
                        raise Violation("C50/proxy_dict/pop-default/getter-applied-to-default", f"{where}: pop({k!r}, 'dflt') on a proxy without that key raised AttributeError: {e}",
                                        observed="AttributeError", expected="'dflt'")
                    _cmp(where, op, "proxy_dict", got, _call(lambda: model.pop(k, "dflt")))
            elif op == "popitem":
                r = _call(lambda: p.popitem())
                if not model:
                    _cmp(where, op, "proxy_dict", r, ("exc", "KeyError"))
                else:
                    if r[0] != "ret" or r[1][0] not in model or model[r[1][0]] != r[1][1]:
                        raise Violation("C50/proxy_dict/popitem/return", f"{where}: popitem gave {r!r}, model {model}")
                    del model[r[1][0]]
            elif op == "setdefault":
                _cmp(where, op, "proxy_dict", _call(lambda: p.setdefault(k, v)), _call(lambda: model.setdefault(k, v)))
            elif op == "update":
                if form == "dict":
                    _cmp(where, op, "proxy_dict", _call(lambda: p.update(dict(items))), _call(lambda: model.update(dict(items))))
                elif form == "pairs":
                    _cmp(where, op, "proxy_dict", _call(lambda: p.update(items)), _call(lambda: model.update(items)))
                else:
                    _cmp(where, op, "proxy_dict", _call(lambda: p.update(**dict(items))), _call(lambda: model.update(**dict(items))))
                ks = {a for a, _ in items}
                if ks & before and ks - before:
                    nontrivial = True
                    classes.add("update-mixed")
            elif op == "clear":
                _cmp(where, op, "proxy_dict", _call(lambda: p.clear()), _call(lambda: model.clear()))
            elif op == "assign":
                o.texts = dict(items)
                model.clear()
                model.update(dict(items))
                ks = {a for a, _ in items}
                if ks & before and ks - before and before - ks:
                    nontrivial = True
                    classes.add("assign-mixed")
            elif op == "reads":
                got = [_call(lambda: p[k]), _call(lambda: p.get(k)), _call(lambda: p.get(k, "dflt")), _call(lambda: k in p), _call(lambda: len(p)), _call(lambda: sorted(p.keys())),
                       _call(lambda: sorted(p.values())), _call(lambda: sorted(p.items())), _call(lambda: p == dict(model)), _call(lambda: p != dict(model)), _call(lambda: p.copy()),
                       _call(lambda: sorted(iter(p))), _call(lambda: bool(p)), _call(lambda: hash(p)), _call(lambda: p.pop(k + "zz"))]
                md = model
                exp = [_call(lambda: md[k]), _call(lambda: md.get(k)), _call(lambda: md.get(k, "dflt")), _call(lambda: k in md), _call(lambda: len(md)), _call(lambda: sorted(md.keys())),
                       _call(lambda: sorted(md.values())), _call(lambda: sorted(md.items())), ("ret", True), ("ret", False), _call(lambda: md.copy()),
                       _call(lambda: sorted(iter(md))), _call(lambda: bool(md)), _call(lambda: hash(md)), _call(lambda: md.pop(k + "zz"))]
                for i, (g, e) in enumerate(zip(got, exp)):
                    _cmp(where + f" read#{i}", "reads", "proxy_dict", g, e)
            elif op == "flush":
                sess.flush()
                rows = sorted(tuple(r) for r in sess.execute(select(Note.key, Note.text).where(Note.oid == o.id)))
                if rows != sorted(model.items()):
                    raise Violation("C50/proxy_dict/flush/rows", f"{where}: association rows {rows} != model {sorted(model.items())}", observed=rows, expected=sorted(model.items()))
            elif op == "reload":
                sess.commit()
                sess.expire_all()
                if dict(o.texts) != model:
                    raise Violation("C50/proxy_dict/reload/contents", f"{where}: reloaded proxy {dict(o.texts)} != model {model}")
                by_key = dict(o.notes)
                keep.extend(by_key.values())
                reloaded = True
                continue
            else:
                raise ValueError(op)
            if reloaded and op in ("setitem", "update", "setdefault", "delitem"):
                nontrivial = True
            sync(where, op, before & set(model))
        ctx.note(case, nontrivial, classes=classes)
    finally:
        sess.close()
        eng.dispose()


@st.composite
def _pdict_programs(draw):
    ki, vi = st.integers(0, 4), st.integers(0, 9)
    ops = []
    for _ in range(draw(st.integers(3, 14))):
        op = draw(st.sampled_from(["setitem", "setitem", "delitem", "pop", "pop_default", "popitem", "setdefault", "update", "update", "clear", "assign", "reads", "reads", "flush", "reload"]))
        ops.append([op, draw(ki), draw(vi), draw(st.lists(st.tuples(ki, vi).map(list), max_size=4)), draw(st.sampled_from(["dict", "pairs", "kw"]))])
    return {"init": draw(st.lists(st.tuples(ki, vi).map(list), max_size=4)), "ops": ops}


# ---- scalar proxy
def check_proxy_scalar(case, ctx):
    eng, sess, o = _setup()
    classes = set()
    nontrivial = False
    try:
        has, bio = False, None  # model: profile exists?, its bio
        cur = None
        for step, opd in enumerate(case["ops"]):
            op, vi_ = opd
            where = f"step {step} {op}"
            classes.add(op)
            if op == "set":
                v = f"b{vi_}"
                o.bio = v
                if has:
                    if o.profile is not cur:
                        raise Violation("C50/proxy_scalar/set/intermediary-identity", f"{where}: assigning through the proxy replaced the existing target object")
                    nontrivial = True
                else:
                    has = True
                    if o.profile is None or o.profile is cur:
                        raise Violation("C50/proxy_scalar/set/not-created", f"{where}: no new target object was created")
                bio = v
            elif op == "set_none":
                o.bio = None
                if has:
                    bio = None  # documented: sets the attribute on the existing target (cascade_scalar_deletes is False)
                # no target: documented to be a no-op unless create_on_none_assignment
            elif op == "del_target":
                o.profile = None
                has, bio = False, None
            elif op == "set_target":
                o.profile = Profile(f"p{vi_}")
                has, bio = True, f"p{vi_}"
            elif op == "flush":
                sess.flush()
                rows = [r[0] for r in sess.execute(select(Profile.bio).where(Profile.oid == o.id))]
                if rows != ([bio] if has else []):
                    raise Violation("C50/proxy_scalar/flush/rows", f"{where}: profile rows {rows}, model {[bio] if has else []}", observed=rows, expected=[bio] if has else [])
            elif op == "reload":
                sess.commit()
                sess.expire_all()
            else:
                raise ValueError(op)
            cur = o.profile
            if (cur is not None) != has:
                raise Violation(f"C50/proxy_scalar/{op}/target-presence", f"{where}: target present={cur is not None}, model {has}")
            got = o.bio
            if got != bio:
                raise Violation(f"C50/proxy_scalar/{op}/value", f"{where}: proxy value {got!r} != model {bio!r}", observed=got, expected=bio)
        ctx.note(case, nontrivial, classes=classes)
    finally:
        sess.close()
        eng.dispose()


@st.composite
def _pscalar_programs(draw):
    ops = [[draw(st.sampled_from(["set", "set", "set_none", "del_target", "set_target", "flush", "reload"])), draw(st.integers(0, 5))] for _ in range(draw(st.integers(1, 10)))]
    return {"ops": ops}


def subs(tier):
    return [
        Generated("olist", check_olist, strategy=_olist_programs(), quick=600, thorough=30000),
        Generated("proxy_list", check_proxy_list, strategy=_plist_programs(), quick=400, thorough=20000),
        Generated("proxy_set", check_proxy_set, strategy=_pset_programs(), quick=300, thorough=15000),
        Generated("proxy_dict", check_proxy_dict, strategy=_pdict_programs(), quick=300, thorough=15000),
        Generated("proxy_scalar", check_proxy_scalar, strategy=_pscalar_programs(), quick=100, thorough=5000),
    ]
