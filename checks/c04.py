"""C04 - bound parameters are delivered to the right placeholders in every paramstyle.

Statement programs (JSON) are built into real Core statements in which every
bind value is a unique tagged token: ``tg(<k>, <bind k>)`` names, in the SQL
text itself, which value the placeholder must receive, and
``tgl(<l>, lhs) IN (<expanding bind l>)`` names the list an IN must receive.

Oracle A (structural): the final ``(statement, parameters)`` handed to
``cursor.execute`` (recording DBAPI behind the real dialect) is tokenised, every
placeholder is resolved to a value by the DBAPI grammar of that paramstyle
(checks/_sqltok.py) and
  A1  every ``tg(k, v)`` carries the expected value of bind k / every tagged
      IN receives exactly its list (first principles, from the program);
  A2  the resolved token sequence equals that of the *named* paramstyle of the
      same dialect (no position tuple involved);
  A3  the value sequence equals that of the ``literal_binds`` rendering.
Oracle B (live): the same statements run on real sqlite3 through all six
paramstyles (qmark and named natively, numeric / numeric_dollar through the
repo's pysqlite test dialects, format / pyformat through a sqlite3 cursor
subclass that applies the DBAPI %-grammar); ``tg``/``tgl`` are UDFs checking
the delivered value inside SQLite; rows and table state must agree with each
other and with the literal_binds statement run through exec_driver_sql.
"""
from __future__ import annotations

import sqlite3
import warnings

from hypothesis import strategies as st

from checks import _sqltok as T
from vf.api import Enumerated, Generated, Violation  # noqa: F401

PROPERTY = "C04"
LEVEL = "exploration"
RULE = (
    "stmt: statement programs (select / insert / insert-from-select / update / delete; 3-8 typed binds referenced by index, 0-2 expanding IN lists of 0-5 "
    "values incl. tuples, 0-2 CTEs (nested), scalar subqueries, EXISTS, GROUP BY/HAVING, ORDER BY CASE, LIMIT/OFFSET, RETURNING, '%' operator/text, "
    "literal_execute, bind names drawn from names needing escaping, values given at construction or at execute time), each executed twice per engine "
    "(value set A, then a structurally equal statement with value set B and other IN lengths = compiled-cache hit) on sqlite x 6 paramstyles + one real "
    "driver family (all families in thorough). many: executemany / insertmanyvalues programs (1-7 rows, page size 1-4, per-column plain / tagged / "
    "row+constant expressions, RETURNING with a non-VALUES bind, multi-VALUES). live: the same programs on real sqlite3 through all six paramstyles. "
    "Non-trivial: >=3 distinct bind values delivered and at least one of: non-empty expanding IN, bind inside a CTE/subquery rendered before an outer bind, "
    "escaped bind name, repeated bind, batch > 1 row; distinct = canonical JSON of the program"
)
ASSUMPTIONS = [
    "the DBAPI paramstyle grammars in checks/_sqltok.py (PEP 249: nth ?/%s -> nth item, :n/$n -> item n, :name/%(name)s -> mapping item, %% -> %) are the trusted base",
    "bind names use only the characters listed in SQLCompiler.bindname_escape_characters plus word characters, and are collision-free after escaping (each name carries its index)",
    "real PostgreSQL/MySQL/MariaDB/MSSQL drivers are observed at cursor.execute through a recording DBAPI (no server); Oracle has no importable driver and is not covered",
    "format/pyformat are executed live through a sqlite3.Cursor subclass that applies the %-grammar and rebinds positionally (trusted shim)",
]

PARAMSTYLES = ["qmark", "format", "pyformat", "named", "numeric", "numeric_dollar"]
# (url, flavor) of real driver dialects, grouped in families
FAMILIES = [
    [("postgresql+psycopg2://", "postgresql", "python"), ("postgresql+psycopg://", "postgresql", "python"), ("postgresql+pg8000://", "postgresql", "sqlaware"),
     ("postgresql+asyncpg://", "postgresql", "python")],
    [("mysql+pymysql://", "mysql", "python"), ("mysql+mysqldb://", "mysql", "python"), ("mariadb+mariadbconnector://", "mysql", "python"), ("mysql+asyncmy://", "mysql", "python")],
    [("mssql+pyodbc://", "mssql", "python"), ("mssql+pymssql://", "mssql", "nodouble")],
    [("postgresql+psycopg://", "postgresql", "python"), ("postgresql+asyncpg://", "postgresql", "python"), ("mariadb+mariadbconnector://", "mysql", "python")],
]
NAMES = ["p", "q r", "a.b", "c[0]", "d(e)", "f%g", "h:i", "%(j)s", "k l.m:n", "w"]
PLAIN = {"p", "w"}

_registered = False


def _preload():
    """import every dialect + driver module once at module import, so the per-sub time budget measures evaluations only"""
    from vf.fakedb import recording_engine

    warnings.simplefilter("ignore")
    seen = set()
    for fam in FAMILIES:
        for url, _f, _p in fam:
            if url not in seen:
                seen.add(url)
                eng, _db = recording_engine(url)
                eng.dispose()


_preload()


def _register():
    global _registered
    if not _registered:
        from sqlalchemy.dialects import registry

        registry.register("sqlite.pysqlite_numeric", "sqlalchemy.dialects.sqlite.pysqlite", "_SQLiteDialect_pysqlite_numeric")
        registry.register("sqlite.pysqlite_dollar", "sqlalchemy.dialects.sqlite.pysqlite", "_SQLiteDialect_pysqlite_dollar")
        _registered = True


# ---------------------------------------------------------------- value model
def bval(t, k, s):
    return 100 * (s + 1) + k if t == "i" else f"{'AB'[s]}{k}"


def lval(t, l, i, s):
    n = 10 + 6 * l + i
    if t == "i":
        return 100 * (s + 1) + n
    if t == "s":
        return f"{'AB'[s]}{n}"
    return (100 * (s + 1) + n, f"{'AB'[s]}{n}")


def table_rows():
    rows = []
    for s in (0, 1):
        for j in range(22):
            rows.append((100 * (s + 1) + j, f"{'AB'[s]}{j}", j % 3))
    return rows


def bname(spec, k, allow_escape=True):
    n = spec.get("n")
    if n is None:
        return None
    base = NAMES[n % len(NAMES)]
    if not allow_escape and base not in PLAIN:
        base = "p"
    return f"{base}k{k}"


# ---------------------------------------------------------------- statement builder
class Built:
    pass


_TABLES = {}


def _table(autoinc):
    import sqlalchemy as sa

    if autoinc not in _TABLES:
        _TABLES[autoinc] = sa.Table("t", sa.MetaData(), sa.Column("id", sa.Integer, primary_key=True, autoincrement=autoinc), sa.Column("a", sa.Integer),
                                    sa.Column("b", sa.String(50)), sa.Column("c", sa.Integer))
    return _TABLES[autoinc]


def build(prog, s, caps, embed=False, pinned=False, ctx=None):
    """returns Built(stmt, params, exp_tags, exp_lists, features)"""
    import sqlalchemy as sa
    from sqlalchemy import Integer, String, and_, bindparam, case, delete, exists, func, insert, literal_column, not_, or_, select, tuple_, update

    # one immutable Table per process: a Table's cache key is its identity, so the second execution of a program
    # (value set B) can only hit the engine's compiled cache if both statements are built on the same Table object
    t = _table(False)
    md = t.metadata
    u = t.alias("u")
    binds = prog["binds"]
    inl = prog.get("inl", [])
    nb = len(binds)
    out = Built()
    out.params = {}
    out.exp_tags = {}
    out.exp_lists = {}
    out.features = set()
    out.table = t
    out.md = md
    made = {}
    used_k = {}

    def typ(tn):
        return Integer() if tn == "i" else String()

    def bind(k):
        k = k % nb
        used_k[k] = used_k.get(k, 0) + 1
        if k in made:
            out.features.add("repeated-bind")
            return made[k]
        spec = binds[k]
        le = bool(spec.get("le"))
        name = bname(spec, k, allow_escape=True)  # literal_execute + escaped name repaired in /repo (ef607b7): generated again
        v = bval(spec["t"], k, s)
        out.exp_tags[k] = v
        if name is not None and any(ch in name for ch in "%():.[] "):
            out.features.add("escaped-name")
        if le:
            out.features.add("literal-execute")
        if spec.get("late") and name is not None and not embed:
            bp = bindparam(name, type_=typ(spec["t"]), literal_execute=le)
            out.params[name] = v
            out.features.add("late-value")
        else:
            bp = bindparam(name, v, type_=typ(spec["t"]), literal_execute=le)
        made[k] = bp
        return bp

    def tg(k):
        k = k % nb
        return func.tg(literal_column(str(k)), bind(k), type_=typ(binds[k]["t"]))

    def col_for(tbl, tn):
        return tbl.c.a if tn == "i" else tbl.c.b

    cte_objs = []
    from_ctes = [set()]

    def item(e, tbl, ctes, agg=False, nofrom=False, depth=0):
        kind = e[0]
        if kind == "B":
            return tg(e[1])
        if kind == "R":
            return bind(e[1])
        if kind == "BM":
            k = e[1] % nb
            out.features.add("percent-text")
            if binds[k]["t"] == "i":
                return tg(k) + (literal_column("7") % literal_column("4"))
            return tg(k).concat(literal_column("'%x'"))
        if kind == "C":
            if nofrom:
                return tg(e[1])
            c = [tbl.c.id, tbl.c.a, tbl.c.b, tbl.c.c][e[1] % 4]
            if agg:
                return tbl.c.c if e[1] % 4 == 3 else func.max(c)
            return c
        if kind in ("X", "XS"):
            if not ctes:
                return tg(e[1])
            c = ctes[e[1] % len(ctes)]
            cc = list(c.c)[e[2] % len(c.c)]
            if kind == "XS" or agg or nofrom:
                out.features.add("cte-in-subquery")
                return select(func.max(cc)).scalar_subquery()
            if depth == 0 or tbl is t:
                from_ctes[0].add(e[1] % len(ctes))
            return cc
        if kind == "Q":
            out.features.add("scalar-subquery")
            inner = item(e[1], u, ctes, depth=depth + 1) if depth < 2 else tg(0)
            q = select(func.max(inner))
            if e[2] is not None:
                q = q.where(pred(e[2], u, ctes, depth + 1))
            return q.scalar_subquery()
        if kind == "F":
            return func.coalesce(item(e[1], tbl, ctes, agg, nofrom, depth + 1), item(e[2], tbl, ctes, agg, nofrom, depth + 1))
        raise ValueError(e)

    def inlist(l, tbl, neg):
        l = l % len(inl)
        spec = inl[l]
        n = spec["na"] if s == 0 else spec["nb"]
        if n == 0 and spec["t"] == "tup":
            out.features.add("empty-tuple-in")
        vals = [lval(spec["t"], l, i, s) for i in range(n)]
        out.exp_lists[l] = vals
        if n:
            out.features.add("expanding-nonempty")
        else:
            out.features.add("expanding-empty")
        le = bool(spec.get("le"))
        name = bname(spec, 20 + l, allow_escape=True)
        if name is not None and any(ch in name for ch in "%():.[] "):
            out.features.add("escaped-name")
        if spec["t"] == "tup":
            out.features.add("tuple-in")
            lhs = tuple_(func.tgl(literal_column(str(l)), tbl.c.a, type_=Integer()), tbl.c.b)
        else:
            lhs = func.tgl(literal_column(str(l)), col_for(tbl, spec["t"]), type_=typ(spec["t"]))
        key = ("L", l)
        nuse = made.get(("Lcount", l), 0)
        made[("Lcount", l)] = nuse + 1
        if key in made and spec["t"] == "tup" and not pinned:
            # known finding C04/expanding-tuple-bind-reused: a second use gets its own bind
            if ctx is not None and s == 0 and not embed:
                ctx.exclude("expanding tuple bind used twice in one statement (known finding C04/expanding-tuple-bind-reused)")
            name = f"{name}r{nuse}"
            key = ("L", l, nuse)
        if key in made:
            rhs = made[key]
            out.features.add("repeated-bind")
        elif name is None:
            rhs = vals
        elif spec.get("late") and not embed:
            rhs = bindparam(name, expanding=True, literal_execute=le) if spec["t"] == "tup" else bindparam(name, expanding=True, literal_execute=le, type_=typ(spec["t"]))
            out.params[name] = vals
            made[key] = rhs
            out.features.add("late-value")
        else:
            rhs = bindparam(name, vals, expanding=True, literal_execute=le) if spec["t"] == "tup" else bindparam(name, vals, expanding=True, literal_execute=le, type_=typ(spec["t"]))
            made[key] = rhs
        if le:
            out.features.add("literal-execute")
        return lhs.not_in(rhs) if neg else lhs.in_(rhs)

    def pred(p, tbl, ctes, depth=0):
        kind = p[0]
        if kind == "eq":
            k = p[1] % nb
            c = col_for(tbl, binds[k]["t"])
            return c != bind(k) if p[2] else c == bind(k)
        if kind == "teq":
            k = p[1] % nb
            return col_for(tbl, binds[k]["t"]) == tg(k)
        if kind == "gt":
            k = p[1] % nb
            return col_for(tbl, binds[k]["t"]) >= tg(k)
        if kind == "in":
            if not inl:
                return pred(["teq", p[1]], tbl, ctes, depth)
            return inlist(p[1], tbl, p[2])
        if kind in ("or", "and"):
            if depth >= 2:
                return pred(["teq", 0], tbl, ctes, depth)
            a, b = pred(p[1], tbl, ctes, depth + 1), pred(p[2], tbl, ctes, depth + 1)
            return or_(a, b) if kind == "or" else and_(a, b)
        if kind == "not":
            if depth >= 2:
                return pred(["eq", 1, True], tbl, ctes, depth)
            return not_(pred(p[1], tbl, ctes, depth + 1))
        if kind == "ex":
            if depth >= 1 or tbl is u:
                return pred(["gt", 1], tbl, ctes, depth)
            out.features.add("exists-subquery")
            return exists(select(u.c.id).where(u.c.c == tbl.c.c).where(pred(p[1], u, ctes, depth + 1)))
        raise ValueError(p)

    # CTEs
    for i, cs in enumerate(prog.get("ctes", [])):
        avail = list(cte_objs)
        cols = [item(e, t, avail, nofrom=not cs.get("tbl", True)).label(f"v{j}") for j, e in enumerate(cs["items"])]
        q = select(*cols)
        if cs.get("tbl", True):
            q = q.select_from(t)
            for p in cs.get("preds", []):
                q = q.where(pred(p, t, avail))
            if cs.get("lim"):
                q = q.order_by(t.c.id).limit(2 + s)
        cte_objs.append(q.cte(f"c{i}"))
        out.features.add("cte")
        from_ctes[0] = set()
    ctes = cte_objs
    shape = prog["shape"]
    agg = prog.get("agg") is not None and shape == "select"

    def finish_select(q, from_t=True):
        for p in prog.get("where", []):
            q = q.where(pred(p, t, ctes))
        if agg:
            k = prog["agg"] % nb
            q = q.group_by(t.c.c)
            if binds[k]["t"] == "i":
                q = q.having(func.max(t.c.a) >= tg(k))
            else:
                q = q.having(func.max(t.c.b) >= tg(k))
            out.features.add("having")
        order = []
        for p in prog.get("order", []):
            order.append(case((pred(p, t, ctes), 0), else_=1))
            out.features.add("order-by-bind")
        lim, off = prog.get("lim"), prog.get("off")
        if order or lim is not None or off is not None:
            if agg:
                order.append(t.c.c)
            else:
                order.append(t.c.id)
                for ci in sorted(from_ctes[0]):
                    order.extend(list(ctes[ci].c))
            q = q.order_by(*order)
        if lim is not None:
            q = q.limit(lim + s)
            out.features.add("limit")
        if off is not None:
            q = q.offset(off + s)
            out.features.add("limit")
        return q

    if shape == "select":
        cols = [item(e, t, ctes, agg=agg).label(f"o{j}") for j, e in enumerate(prog["sel"])]
        stmt = finish_select(select(*cols).select_from(t))
    elif shape == "insert_from_select":
        es = (prog["sel"] + [["B", 0], ["B", 1], ["B", 2]])[:3]
        cols = [item(e, t, ctes) for e in es]
        q = select(*cols).select_from(t)
        for p in prog.get("where", []):
            q = q.where(pred(p, t, ctes))
        q = q.order_by(t.c.id).limit(2 + s)
        stmt = insert(t).from_select(["a", "b", "c"], q)
        out.features.add("insert-from-select")
    else:
        def vitem(e):
            def fix(x):
                if isinstance(x, list) and x and x[0] == "X":
                    return ["XS"] + list(x[1:])
                if isinstance(x, list):
                    return [fix(y) for y in x]
                return x

            e = fix(e)
            return item(e, t, ctes, nofrom=(shape == "insert"))

        vals = prog.get("vals") or {}
        if shape == "insert":
            vd = {c: vitem(vals[c]) for c in ("a", "b", "c") if c in vals} or {"a": tg(0)}
            stmt = insert(t).values(**vd)
        elif shape == "update":
            vd = {c: vitem(vals[c]) for c in ("a", "b", "c") if c in vals} or {"c": tg(0)}
            stmt = update(t).values(**vd)
            for p in prog.get("where", []):
                stmt = stmt.where(pred(p, t, ctes))
        elif shape == "delete":
            stmt = delete(t)
            for p in prog.get("where", []):
                stmt = stmt.where(pred(p, t, ctes))
        else:
            raise ValueError(shape)
        out.features.add("dml-" + shape)
    if shape != "select":
        flag = {"insert": "insert_returning", "insert_from_select": "insert_returning", "update": "update_returning", "delete": "delete_returning"}[shape]
        if prog.get("ret") and caps.get(flag, False):
            rcols = [t.c.id] + [item(e if e[0] in ("B", "R", "BM", "C") else ["B", e[1]], t, []).label(f"r{j}") for j, e in enumerate(prog["ret"])]
            stmt = stmt.returning(*rcols)
            out.features.add("returning")
    out.stmt = stmt
    out.n_distinct = len(out.exp_tags) + sum(len(v) for v in out.exp_lists.values())
    return out


# ---------------------------------------------------------------- structural analysis
def _typed(v):
    if isinstance(v, (list, tuple)):
        return [_typed(x) for x in v]
    return [type(v).__name__, v]


def analyze(statement, parameters, ps, flavor, percent="python"):
    try:
        toks = T.lex(statement, flavor, ps, percent)
    except T.LexError as e:
        raise Violation(f"C04/lex/{e.kind}/{ps}", f"statement is not valid for a {ps} driver: {e}", observed=statement)
    try:
        R, _used = T.resolve(toks, parameters, ps)
    except T.ResolveError as e:
        raise Violation(f"C04/resolve/{e.kind}/{ps}", f"{e}", observed=[statement, repr(parameters)])
    return R


def _group(R, i):
    """R[i] is '(' ; returns index of the matching ')'"""
    depth = 0
    for j in range(i, len(R)):
        if R[j] == ("op", "("):
            depth += 1
        elif R[j] == ("op", ")"):
            depth -= 1
            if depth == 0:
                return j
    return len(R) - 1


def check_tags(R, exp_tags, exp_lists, ps, where, statement):
    seen = {}
    n = len(R)
    for i, tok in enumerate(R):
        if tok == ("word", "tg") and i + 4 < n and R[i + 1] == ("op", "("):
            kt, vt = R[i + 2], R[i + 4]
            if kt[0] != "val" or vt[0] != "val" or kt[1] not in exp_tags:
                raise Violation(f"C04/tag-shape/{ps}", f"{where}: cannot read tg(k, v) at token {i}: {R[i:i + 6]!r}", observed=statement)
            k, v = kt[1], vt[1]
            seen[k] = seen.get(k, 0) + 1
            if _typed(v) != _typed(exp_tags[k]):
                raise Violation(f"C04/tag-mismatch/{ps}", f"{where}: placeholder inside tg({k}, .) received {v!r}, bind {k} has value {exp_tags[k]!r}", observed=statement, expected=repr(exp_tags[k]))
        if tok == ("word", "tgl") and i + 2 < n and R[i + 1] == ("op", "("):
            lt = R[i + 2]
            l = lt[1]
            j = i
            while j < n and not (R[j][0] == "word" and R[j][1].upper() == "IN"):
                j += 1
            if j + 1 >= n or R[j + 1] != ("op", "("):
                raise Violation(f"C04/tag-shape/{ps}", f"{where}: no IN ( after tgl({l}, ..)", observed=statement)
            end = _group(R, j + 1)
            vals = [x for x in R[j + 2:end] if x[0] == "val"]
            exp = exp_lists[l]
            flat = []
            for e in exp:
                flat.extend(e if isinstance(e, tuple) else [e])
            if flat:
                got = [x[1] for x in vals]
                if _typed(got) != _typed(flat):
                    raise Violation(f"C04/inlist-mismatch/{ps}", f"{where}: IN list {l} received {got!r}, expected {flat!r}", observed=statement, expected=repr(flat))
            else:
                got = [x[1] for x in vals if x[2] == "ph"]
                if got:
                    raise Violation(f"C04/inlist-mismatch/{ps}", f"{where}: empty IN list {l} received bound values {got!r}", observed=statement)
            seen[("L", l)] = seen.get(("L", l), 0) + 1
    return seen


def values_of(R):
    return [_typed(x[1]) for x in R if x[0] == "val"]


def _strip_src(R):
    return [(x[0], _typed(x[1])) if x[0] == "val" else x for x in R]


def compare_ref(R, Rref, ps, where, statement, ref_statement):
    a, b = _strip_src(R), _strip_src(Rref)
    # literal_execute renders inline in both; placeholders resolved in both
    if a != b:
        i = 0
        while i < min(len(a), len(b)) and a[i] == b[i]:
            i += 1
        raise Violation(f"C04/ref-mismatch/{ps}", f"{where}: resolved token #{i} is {a[i] if i < len(a) else None!r}; the named-paramstyle reference has {b[i] if i < len(b) else None!r}",
                        observed=statement, expected=ref_statement)


def _caps(dialect):
    return {k: bool(getattr(dialect, k, False)) for k in ("insert_returning", "update_returning", "delete_returning")}


def _exec_recorded(url, ps_override, prog, pinned, ctx, sets=(0, 1), **ekw):
    """run the program for each value set on one recording engine; returns
    (dialect paramstyle, [ (Built, [(statement, params, many), ...]) per set ], dialect)"""
    from vf.fakedb import recording_engine

    kw = dict(ekw)
    if ps_override:
        kw["paramstyle"] = ps_override
    eng, db = recording_engine(url, **kw)
    try:
        caps = _caps(eng.dialect)
        res = []
        with eng.connect() as conn:
            for s in sets:
                b = build(prog, s, caps, pinned=pinned, ctx=ctx if ps_override == "qmark" else None)
                n0 = len(db.conns[0].statements) if db.conns else 0
                try:
                    if b.params:
                        conn.execute(b.stmt, b.params)
                    else:
                        conn.execute(b.stmt)
                except Exception as e:
                    _classify_exec_error(e, b, f"{url} paramstyle={eng.dialect.paramstyle}")
                    raise
                res.append((b, list(db.conns[0].statements[n0:])))
        return eng.dialect.paramstyle, res, eng.dialect
    finally:
        eng.dispose()


def _classify_exec_error(e, b, where):
    """map the two confirmed root causes to their signatures (anything else propagates unchanged)"""
    import traceback

    from sqlalchemy import exc

    if not isinstance(e, exc.StatementError) or e.orig is None:
        return
    frames = [f.name for f in traceback.extract_tb(e.orig.__traceback__)]
    if not frames or frames[-1] != "_process_parameters_for_postcompile":
        return
    if isinstance(e.orig, KeyError) and {"literal-execute", "escaped-name"} <= b.features:
        raise Violation("C04/literal-execute-escaped-name", f"{where}: literal_execute bind whose name needs escaping cannot be executed: KeyError {e.orig} "
                        "(_process_parameters_for_postcompile pops the escaped name from parameters keyed by the unescaped name)", observed=str(e)[:600])
    if isinstance(e.orig, AssertionError) and "tuple-in" in b.features:
        raise Violation("C04/expanding-tuple-bind-reused", f"{where}: an expanding tuple bind used twice in one statement fails 'assert values is not None' "
                        "in _process_parameters_for_postcompile", observed=str(e)[:600])


def _witness(prog, s, dialect, flavor, pinned, percent="python"):
    b = build(prog, s, _caps(dialect), embed=True, pinned=pinned)
    c = b.stmt.compile(dialect=dialect, compile_kwargs={"literal_binds": True})
    text = str(c)
    try:
        toks = T.lex(text, flavor, dialect.paramstyle, percent)
    except T.LexError as e:
        raise Violation(f"C04/witness-lex/{e.kind}", f"literal_binds rendering not lexable: {e}", observed=text)
    if any(t[0] == "ph" for t in toks):
        raise Violation("C04/witness-has-placeholder", "literal_binds rendering still contains a placeholder", observed=text)
    R, _ = T.resolve(toks, () if dialect.positional else {}, dialect.paramstyle)
    return R, text


def _configs(case, ctx):
    configs = [("sqlite://", ps, "sqlite", "python") for ps in PARAMSTYLES]
    fams = range(len(FAMILIES)) if ctx.tier == "thorough" else [case.get("fam", 0) % len(FAMILIES)]
    seen_urls = set()
    for fi in fams:
        for url, flavor, percent in FAMILIES[fi]:
            if url not in seen_urls:
                seen_urls.add(url)
                configs.append((url, None, flavor, percent))
    return configs


def _nontrivial(b):
    f = b.features
    inner_first = "cte" in f or "scalar-subquery" in f or "exists-subquery" in f or "cte-in-subquery" in f
    return b.n_distinct >= 3 and bool({"expanding-nonempty", "escaped-name", "repeated-bind"} & f or inner_first)


def check_stmt(case, ctx):
    warnings.simplefilter("ignore")
    prog = case
    pinned = bool(case.get("pinned"))
    configs = _configs(case, ctx)
    refs = {}
    feats = set()
    nontriv = False
    noted = False
    off_wo_limit = prog["shape"] == "select" and prog.get("off") is not None and prog.get("lim") is None

    def note():
        nonlocal noted
        if not noted:
            noted = True
            ctx.note(case, nontriv, classes=sorted(feats) + [prog["shape"]])

    try:
        for url, pso, flavor, percent in configs:
            key = url
            if key not in refs:
                if pso is None:
                    # real driver dialects do not honour a paramstyle override faithfully (pg8000 keeps '%%', mariadbconnector
                    # stays qmark): no named reference there, A1 (tags) + A3 (literal_binds witness) remain
                    refs[key] = None
                else:
                    rps, rres, rdialect = _exec_recorded(url, "named", prog, pinned, None)
                    refs[key] = [(b, [(st_, analyze(st_, p, "named", flavor)) for st_, p, many in stmts]) for b, stmts in rres]
            if pso == "named":
                continue
            ps, res, dialect = _exec_recorded(url, pso, prog, pinned, ctx)
            for s, (b, stmts) in enumerate(res):
                feats |= b.features
                nontriv = nontriv or _nontrivial(b)
                where = f"{url} paramstyle={ps} set={'AB'[s]}"
                if len(stmts) != 1:
                    raise Violation(f"C04/statement-count/{ps}", f"{where}: {len(stmts)} cursor calls for one execute", observed=[x[0] for x in stmts])
                statement, params, many = stmts[0]
                R = analyze(statement, params, ps, flavor, percent)
                seen = check_tags(R, b.exp_tags, b.exp_lists, ps, where, [statement, repr(params)])
                if refs[key] is not None:
                    rb, rstmts = refs[key][s]
                    compare_ref(R, rstmts[0][1], ps, where, [statement, repr(params)], rstmts[0][0])
                if off_wo_limit and flavor == "sqlite":
                    if pso == "qmark" and s == 0:
                        ctx.exclude("literal_binds witness skipped: sqlite OFFSET without LIMIT renders 'LIMIT ?' under literal_binds (known finding C05/sqlite-offset-no-limit)")
                    continue
                if "returning" in b.features:
                    # literal_binds is not propagated into RETURNING (binds stay placeholders there): no witness for these
                    if pso == "qmark" and s == 0:
                        ctx.info("witness skipped: binds inside RETURNING are not rendered by literal_binds")
                    continue
                W, wtext = _witness(prog, s, dialect, flavor, pinned, percent)
                if values_of(R) != values_of(W):
                    raise Violation(f"C04/witness-mismatch/{ps}", f"{where}: value sequence {values_of(R)!r} differs from the literal_binds rendering {values_of(W)!r}",
                                    observed=[statement, repr(params)], expected=wtext)
            # the reference itself is judged by the first-principles tags too
            for s, (rb, rstmts) in enumerate(refs[key] or []):
                check_tags(rstmts[0][1], rb.exp_tags, rb.exp_lists, "named", f"{url} paramstyle=named set={'AB'[s]}", rstmts[0][0])
    finally:
        note()


# ---------------------------------------------------------------- live (sqlite3) execution
def _shim_factory(ps):
    class ShimCursor(sqlite3.Cursor):
        def _tr(self, sql, parameters):
            chars = T.percent_layer(sql, ps)
            out, order = [], []
            for c in chars:
                if isinstance(c, str):
                    out.append(c)
                else:
                    out.append("?")
                    order.append(c.key)
            return "".join(out), order

        def _bind(self, order, parameters):
            if ps == "format":
                if len(order) != len(parameters):
                    raise sqlite3.ProgrammingError(f"format: {len(order)} placeholders, {len(parameters)} parameters")
                return tuple(parameters)
            return tuple(parameters[k] for k in order)

        def execute(self, sql, parameters=()):
            q, order = self._tr(sql, parameters)
            return super().execute(q, self._bind(order, parameters) if order or parameters else ())

        def executemany(self, sql, seq):
            q, order = self._tr(sql, None)
            return super().executemany(q, [self._bind(order, p) for p in seq])

    class ShimConnection(sqlite3.Connection):
        def cursor(self, factory=None):
            return super().cursor(factory=factory or ShimCursor)

    return ShimConnection


def _live_engine(ps, state, **kw):
    from sqlalchemy import create_engine, event
    from sqlalchemy.pool import StaticPool

    _register()
    if ps == "qmark":
        eng = create_engine("sqlite://", poolclass=StaticPool, **kw)
    elif ps == "named":
        eng = create_engine("sqlite://", poolclass=StaticPool, paramstyle="named", **kw)
    elif ps == "numeric":
        eng = create_engine("sqlite+pysqlite_numeric://", poolclass=StaticPool, **kw)
    elif ps == "numeric_dollar":
        eng = create_engine("sqlite+pysqlite_dollar://", poolclass=StaticPool, **kw)
    else:
        eng = create_engine("sqlite://", poolclass=StaticPool, paramstyle=ps, connect_args={"factory": _shim_factory(ps)}, **kw)

    @event.listens_for(eng, "connect")
    def _on_connect(dbapi_conn, rec):
        def tg(k, x):
            if k in state.get("free", ()):
                return x
            exp = state["tags"].get(k, "<unknown tag>")
            if [type(x).__name__, x] != [type(exp).__name__, exp]:
                state["bad"].append((k, x, exp))
            return x

        def tgl(l, x):
            return x

        dbapi_conn.create_function("tg", 2, tg)
        dbapi_conn.create_function("tgl", 2, tgl)
        cur = sqlite3.Cursor(dbapi_conn)
        cur.execute(state.get("ddl") or "CREATE TABLE t (id INTEGER PRIMARY KEY, a INTEGER, b VARCHAR(50), c INTEGER)")
        if state.get("populate", True):
            sqlite3.Cursor.executemany(cur, "INSERT INTO t (a, b, c) VALUES (?, ?, ?)", table_rows())
        cur.close()
        dbapi_conn.commit()

    return eng


def _raw_state(conn, names=None):
    dbc = conn.connection.driver_connection
    cur = sqlite3.Cursor(dbc)
    cols = ", ".join(_q(names[c]) for c in COLS) if names else "a, b, c"
    try:
        return sqlite3.Cursor.execute(cur, f"SELECT id, {cols} FROM t ORDER BY id").fetchall()
    finally:
        cur.close()


def check_live(case, ctx):
    warnings.simplefilter("ignore")
    prog = case
    pinned = bool(case.get("pinned"))
    caps = {"insert_returning": True, "update_returning": True, "delete_returning": True}
    results = {}
    feats = set()
    nontriv = False
    off_wo_limit = prog["shape"] == "select" and prog.get("off") is not None and prog.get("lim") is None
    try:
        for ps in PARAMSTYLES + ["literal"]:
            state = {"tags": {}, "bad": []}
            eng = _live_engine("qmark" if ps == "literal" else ps, state)
            try:
                outs = []
                with eng.connect() as conn:
                    for s in (0, 1):
                        b = build(prog, s, caps, embed=(ps == "literal"), pinned=pinned)
                        feats |= b.features
                        nontriv = nontriv or _nontrivial(b)
                        state["tags"] = dict(b.exp_tags)
                        if ps == "literal" and (off_wo_limit or (prog["shape"] != "select" and prog.get("ret"))):
                            # literal_binds cannot express these (known findings C05/sqlite-offset-no-limit, C05/returning-ignores-literal-binds):
                            # no literal run for this set
                            outs.append(None)
                            continue
                        if ps == "literal":
                            text = str(b.stmt.compile(dialect=eng.dialect, compile_kwargs={"literal_binds": True}))
                            r = conn.exec_driver_sql(text)
                        elif b.params:
                            r = conn.execute(b.stmt, b.params)
                        else:
                            r = conn.execute(b.stmt)
                        rows = sorted((tuple(x) for x in r.all()), key=repr) if r.returns_rows else None
                        outs.append((rows, _raw_state(conn)))
                        if state["bad"]:
                            k, x, exp = state["bad"][0]
                            raise Violation(f"C04/live-tag-mismatch/{ps}", f"sqlite3 via {ps}, set {'AB'[s]}: tg({k}, .) received {x!r} inside SQLite, bind {k} has value {exp!r}",
                                            observed=repr(state["bad"][:5]), expected=repr(exp))
                    conn.rollback()
                if ps == "literal" and prog["shape"] != "select" and any(o is None for o in outs):
                    # a DML set that could not be run literally leaves the table in another state: no literal comparison for this program
                    outs = [None for _ in outs]
                results[ps] = outs
            finally:
                eng.dispose()
        base = results["qmark"]
        for ps in PARAMSTYLES[1:] + ["literal"]:
            if results[ps] != base:
                for s in (0, 1):
                    if results[ps][s] is not None and results[ps][s] != base[s]:
                        what = "rows" if results[ps][s][0] != base[s][0] else "table state"
                        raise Violation(f"C04/live-rows-differ/{ps}", f"set {'AB'[s]}: {what} through {ps} differ from qmark", observed=repr(results[ps][s])[:1500], expected=repr(base[s])[:1500])
        if base[0][0]:
            feats.add("rows>0")
    finally:
        ctx.note(case, nontriv, classes=sorted(feats) + [prog["shape"]])


# ---------------------------------------------------------------- executemany / insertmanyvalues
COLS = ["a", "b", "c"]
# real column names per logical column (index 0 = plain); the others need bind-name escaping and stay collision-free after it
COLNAMES = {
    "a": ["a", "a b", "a.x", "a[0]"],
    "b": ["b", "b(y)", "b%p", "b:q"],
    "c": ["c", "c d.e", "c[1](2)", "c %:z"],
}
_MANY_TABLES = {}


def _colnames(prog):
    cn = prog.get("cn") or [0, 0, 0]
    return {c: COLNAMES[c][cn[i] % len(COLNAMES[c])] for i, c in enumerate(COLS)}


def _many_table(autoinc, names):
    import sqlalchemy as sa

    key = (autoinc, tuple(names[c] for c in COLS))
    if key not in _MANY_TABLES:
        _MANY_TABLES[key] = sa.Table("t", sa.MetaData(), sa.Column("id", sa.Integer, primary_key=True, autoincrement=autoinc), sa.Column(names["a"], sa.Integer),
                                     sa.Column(names["b"], sa.String(50)), sa.Column(names["c"], sa.Integer))
    return _MANY_TABLES[key]


def _q(name):
    return '"' + name.replace('"', '""') + '"'


def _many_ddl(names):
    return f"CREATE TABLE t (id INTEGER PRIMARY KEY, {_q(names['a'])} INTEGER, {_q(names['b'])} VARCHAR(50), {_q(names['c'])} INTEGER)"


def rowval(c, r, s):
    if c == "a":
        return 100 * (s + 1) + r
    if c == "b":
        return f"{'AB'[s]}r{r}"
    return 100 * (s + 1) + 50 + r


def constval(c, s):
    return f"{'AB'[s]}K{c}" if c == "b" else 7000 * (s + 1) + COLS.index(c)


def build_many(prog, s, caps, autoinc=True, ctx=None):
    import sqlalchemy as sa
    from sqlalchemy import Integer, String, bindparam, func, insert, literal_column

    cn = _colnames(prog)
    t = _many_table(autoinc, cn)
    out = Built()
    out.table = t
    out.cn = cn
    out.col_of_name = {v: k for k, v in cn.items()}
    modes = {c: prog["cols"][i] % 4 for i, c in enumerate(COLS)}
    if all(m == 0 for m in modes.values()):
        modes["a"] = 1
    out.modes = modes
    n = prog["rows"]
    multi = bool(prog.get("multi"))
    names = prog.get("names", [0, 0, 0])
    out.const_names = {}
    vd = {}
    out.features = set()
    for i, c in enumerate(COLS):
        m = modes[c]
        ty = String() if c == "b" else Integer()
        if m == 0 or multi:
            continue
        if m == 1:
            continue  # plain: comes from the parameter dictionaries
        if m == 2:
            vd[cn[c]] = func.tg(literal_column(str(10 + i)), bindparam(cn[c], type_=ty), type_=ty)
            out.features.add("tagged-values-bind")
        else:
            cname = f"{NAMES[names[i] % len(NAMES)]}k{50 + i}"
            if T_escape(cname).startswith(T_escape(cn[c])) and not prog.get("pinned"):
                # known finding C04/imv-named-prefix-replace: a second bind in the column's VALUES expression whose
                # name extends the column's own parameter name is corrupted by the non-positional imv rewrite
                if ctx is not None and s == 0:
                    ctx.exclude("bind in a VALUES expression whose name starts with the column parameter name (known finding C04/imv-named-prefix-replace)")
                cname = "z" + cname
            out.const_names[c] = cname
            if any(ch in cname for ch in "%():.[] "):
                out.features.add("escaped-name")
            k = func.tg(literal_column(str(50 + i)), bindparam(cname, constval(c, s), type_=ty), type_=ty)
            vd[cn[c]] = bindparam(cn[c], type_=ty).concat(k) if c == "b" else bindparam(cn[c], type_=ty) + k
            out.features.add("const-bind-in-values")
    rows = []
    for r in range(n):
        rows.append({cn[c]: rowval(c, r, s) for c in COLS if modes[c] != 0})
    out.rows = rows
    out.escaped_cols = sorted(c for c in COLS if modes[c] != 0 and cn[c] != T_escape(cn[c]))
    if out.escaped_cols:
        out.features.add("escaped-column-name")
    if multi:
        stmt = insert(t).values(rows)
        out.params = None
        out.features.add("multi-values")
    else:
        stmt = insert(t).values(vd) if vd else insert(t)
        out.params = rows
    out.ret = False
    if prog.get("ret") and caps.get("insert_returning"):
        rc = [t.c.id, t.c[cn["a"]], t.c[cn["b"]], t.c[cn["c"]]]
        if prog.get("retbind"):
            rname = f"{NAMES[prog.get('retname', 0) % len(NAMES)]}k90"
            rc.append(func.tg(literal_column("90"), bindparam(rname, f"{'AB'[s]}RET", type_=String()), type_=String()).label("rb"))
            out.features.add("bind-after-values")
            if any(ch in rname for ch in "%():.[] "):
                out.features.add("escaped-name")
        stmt = stmt.returning(*rc, sort_by_parameter_order=bool(prog.get("sorted")) and not multi and autoinc)
        out.ret = True
        out.features.add("returning")
    out.stmt = stmt
    out.expected = []
    for r in range(n):
        row = []
        for c in COLS:
            m = 1 if (multi and modes[c] != 0) else modes[c]
            if m == 0:
                row.append(None)
            elif m in (1, 2):
                row.append(rowval(c, r, s))
            else:
                row.append(rowval(c, r, s) + constval(c, s))
        out.expected.append(tuple(row))
    return out


def T_escape(name):
    m = {"%": "P", "(": "A", ")": "Z", ":": "C", ".": "_", "[": "_", "]": "_", " ": "_"}
    return "".join(m.get(ch, ch) for ch in name)


def _split_top(R, i, end):
    """split R[i+1:end] (inside a paren group) on top-level commas"""
    parts, cur, depth = [], [], 0
    for tok in R[i + 1:end]:
        if tok == ("op", "("):
            depth += 1
        elif tok == ("op", ")"):
            depth -= 1
        if tok == ("op", ",") and depth == 0:
            parts.append(cur)
            cur = []
        else:
            cur.append(tok)
    parts.append(cur)
    return parts


def check_many_statement(R, b, s, row0, nrows_in_stmt, ps, where, statement):
    """first-principles check of one INSERT: returns number of VALUES groups"""
    # column list
    i = 0
    while i < len(R) and not (R[i][0] == "word" and R[i][1].upper() == "INTO"):
        i += 1
    j = i
    while j < len(R) and R[j] != ("op", "("):
        j += 1
    end = _group(R, j)
    cols = [p[0][1] for p in _split_top(R, j, end) if p]
    v = end
    while v < len(R) and not (R[v][0] == "word" and R[v][1].upper() == "VALUES"):
        v += 1
    if v >= len(R):
        raise Violation(f"C04/many-shape/{ps}", f"{where}: no VALUES clause", observed=statement)
    g = v + 1
    ngroups = 0
    while g < len(R) and R[g] == ("op", "("):
        gend = _group(R, g)
        parts = _split_top(R, g, gend)
        if len(parts) < len(cols):
            raise Violation(f"C04/many-shape/{ps}", f"{where}: VALUES group has {len(parts)} elements for {len(cols)} columns", observed=statement)
        r = row0 + ngroups
        for cname_, part in zip(cols, parts):
            c = b.col_of_name.get(cname_)
            if c is None:
                raise Violation(f"C04/many-shape/{ps}", f"{where}: unknown column {cname_!r} in the INSERT column list", observed=statement)
            multi = b.params is None
            m = 1 if multi else b.modes[c]
            vals = []
            for x_i, x in enumerate(part):
                if x[0] == "val":
                    if x_i >= 2 and part[x_i - 1] == ("op", "(") and part[x_i - 2] == ("word", "tg"):
                        continue  # the tag number itself
                    vals.append(x[1])
            exp = [rowval(c, r, s)] if m in (1, 2) else [rowval(c, r, s), constval(c, s)]
            if _typed(vals) != _typed(exp):
                raise Violation(f"C04/many-mismatch/{ps}", f"{where}: row {r} column {c} received {vals!r}, expected {exp!r}", observed=statement, expected=repr(exp))
        ngroups += 1
        g = gend + 1
        if g < len(R) and R[g] == ("op", ","):
            g += 1
        else:
            break
    # a tagged bind after VALUES (RETURNING)
    for x_i in range(g, len(R) - 4):
        if R[x_i] == ("word", "tg") and R[x_i + 2][0] == "val" and R[x_i + 2][1] == 90:
            got = R[x_i + 4][1] if R[x_i + 4][0] == "val" else None
            if got != f"{'AB'[s]}RET":
                raise Violation(f"C04/many-after-values-mismatch/{ps}", f"{where}: bind in RETURNING received {got!r}, expected {'AB'[s]}RET", observed=statement)
    return ngroups


def _run_many_recorded(url, pso, prog, flavor, ctx=None):
    from vf.fakedb import recording_engine

    kw = {"insertmanyvalues_page_size": prog["page"]}
    if pso:
        kw["paramstyle"] = pso
    eng, db = recording_engine(url, **kw)
    try:
        caps = _caps(eng.dialect)
        res = []
        with eng.connect() as conn:
            for s in (0, 1):
                b = build_many(prog, s, caps, autoinc=flavor != "mssql", ctx=ctx if pso == "qmark" else None)
                n0 = len(db.conns[0].statements) if db.conns else 0
                if b.params is None:
                    conn.execute(b.stmt)
                else:
                    conn.execute(b.stmt, b.params)
                res.append((b, list(db.conns[0].statements[n0:])))
        return eng.dialect.paramstyle, res
    finally:
        eng.dispose()


IMV_CLASS = "imv-batch>1+escaped-column+named/pyformat"


def _values_groups(statement, ps):
    """number of top-level VALUES groups of an INSERT as sent to the cursor"""
    try:
        toks = T.lex(statement, "sqlite", ps)
    except T.LexError:
        return 0
    v = 0
    while v < len(toks) and not (toks[v][0] == "word" and toks[v][1].upper() == "VALUES"):
        v += 1
    g, n = v + 1, 0
    while g < len(toks) and toks[g] == ("op", "("):
        g = _group(toks, g) + 1
        n += 1
        if g < len(toks) and toks[g] == ("op", ","):
            g += 1
        else:
            break
    return n


def _analyze_many(statement, p, ps, flavor, percent, many, b, where):
    try:
        return analyze(statement, p, ps, flavor, percent)
    except Violation as v:
        if v.signature.startswith("C04/resolve/missing-param") and not many and ps in ("named", "pyformat") and any(T_escape(n).startswith(T_escape(b.cn[c])) for c, n in b.const_names.items()):
            raise Violation("C04/imv-named-prefix-replace", f"{where}: insertmanyvalues rewrote a bind whose name extends the column parameter name: {v.message}", observed=v.observed)
        raise


def check_many(case, ctx):
    warnings.simplefilter("ignore")
    prog = case
    configs = _configs(case, ctx)
    feats = set()
    nontriv = False
    try:
        refs = {}
        for url, pso, flavor, percent in configs:
            if url not in refs:
                refs[url] = _run_many_recorded(url, "named", prog, flavor)[1] if pso is not None else None
            ps, res = _run_many_recorded(url, pso, prog, flavor, ctx) if pso != "named" else ("named", refs[url])
            for s, (b, stmts) in enumerate(res):
                feats |= b.features
                where0 = f"{url} paramstyle={ps} set={'AB'[s]}"
                delivered = 0
                for si, (statement, params, many) in enumerate(stmts):
                    psets = params if many else [params]
                    if many:
                        feats.add("executemany")
                    for pi, p in enumerate(psets):
                        where = f"{where0} stmt#{si} paramset#{pi}"
                        R = _analyze_many(statement, p, ps, flavor, percent, many, b, where)
                        ng = check_many_statement(R, b, s, delivered, None, ps, where, [statement, repr(p)])
                        if ng > 1:
                            feats.add("batch>1")
                            nontriv = True
                            if b.escaped_cols and b.params is not None and ps in ("named", "pyformat") and not many:
                                feats.add(IMV_CLASS)
                        delivered += ng
                        # reference comparison (same statement / batch index of the named run)
                        if ps != "named" and refs[url] is not None:
                            rb, rstmts = refs[url][s]
                            if si >= len(rstmts):
                                raise Violation(f"C04/many-statement-count/{ps}", f"{where}: more cursor calls than the named reference", observed=[x[0] for x in stmts])
                            rstatement, rparams, rmany = rstmts[si]
                            rp = rparams[pi] if rmany else rparams
                            compare_ref(R, _analyze_many(rstatement, rp, "named", flavor, "python", rmany, rb, where + " (named reference)"), ps, where, [statement, repr(p)], rstatement)
                if delivered != len(b.rows):
                    raise Violation(f"C04/many-row-count/{ps}", f"{where0}: {delivered} rows delivered to the cursor, {len(b.rows)} given", observed=[x[0] for x in stmts])
                if len(stmts) > 1:
                    feats.add("multiple-batches")
                if len(b.rows) > 1 and (b.features & {"const-bind-in-values", "bind-after-values", "tagged-values-bind"}):
                    nontriv = True
    finally:
        ctx.note(case, nontriv, classes=sorted(feats))


def check_many_live(case, ctx):
    warnings.simplefilter("ignore")
    prog = case
    caps = {"insert_returning": True}
    feats = set()
    results = {}
    nontriv = prog["rows"] > 1
    try:
        for ps in PARAMSTYLES:
            state = {"tags": {}, "bad": [], "populate": False, "free": {10, 11, 12}, "ddl": _many_ddl(_colnames(prog))}
            captured = []
            eng = _live_engine(ps, state, insertmanyvalues_page_size=prog["page"])
            from sqlalchemy import event as _event

            _event.listen(eng, "before_cursor_execute", lambda conn_, cur_, st_, p_, ctx_, many_, _c=captured: _c.append(st_))
            try:
                outs = []
                with eng.connect() as conn:
                    expected_state = []
                    for s in (0, 1):
                        b = build_many(prog, s, caps)
                        feats |= b.features
                        # tags: 10+i -> row dependent (checked structurally); 50+i const; 90 ret
                        tags = {50 + i: constval(c, s) for i, c in enumerate(COLS)}
                        tags[90] = f"{'AB'[s]}RET"
                        state["tags"] = tags
                        r = conn.execute(b.stmt) if b.params is None else conn.execute(b.stmt, b.params)
                        rows = [tuple(x) for x in r.all()] if r.returns_rows else None
                        if rows is not None:
                            # RETURNING id, a, b, c [, rb]: the returned column values must be the rows given (first principles)
                            got_ret = sorted((x[1:4] for x in rows), key=repr)
                            exp_ret = sorted(b.expected, key=repr)
                            if got_ret != exp_ret:
                                raise Violation(f"C04/many-live-returning/{ps}", f"sqlite3 via {ps}, set {'AB'[s]}: RETURNING gave {got_ret!r}, the rows inserted are {exp_ret!r}",
                                                observed=repr(got_ret), expected=repr(exp_ret))
                        if rows is not None and not prog.get("sorted"):
                            rows = sorted(rows, key=repr)
                        st_rows = _raw_state(conn, b.cn)
                        expected_state += list(b.expected)
                        if b.escaped_cols and b.params is not None and ps in ("named", "pyformat") and any(_values_groups(st_, ps) > 1 for st_ in captured):
                            feats.add(IMV_CLASS)
                        del captured[:]
                        got = [x[1:] for x in st_rows]
                        if got != expected_state:
                            raise Violation(f"C04/many-live-state/{ps}", f"sqlite3 via {ps}, set {'AB'[s]}: table holds {got!r}, expected {expected_state!r}", observed=repr(got), expected=repr(expected_state))
                        if state["bad"]:
                            raise Violation(f"C04/live-tag-mismatch/{ps}", f"sqlite3 via {ps}: {state['bad'][:3]!r}")
                        outs.append(rows)
                    conn.rollback()
                results[ps] = outs
            finally:
                eng.dispose()
        for ps in PARAMSTYLES[1:]:
            if results[ps] != results["qmark"]:
                raise Violation(f"C04/live-rows-differ/{ps}", f"RETURNING rows through {ps} differ from qmark", observed=repr(results[ps]), expected=repr(results["qmark"]))
    finally:
        ctx.note(case, nontriv, classes=sorted(feats))


# ---------------------------------------------------------------- strategies
_k = st.integers(0, 7)
_name = st.one_of(st.none(), st.integers(0, len(NAMES) - 1), st.integers(2, 8))


@st.composite
def _bindspec(draw):
    return {"t": draw(st.sampled_from(["i", "s"])), "n": draw(_name), "le": draw(st.integers(0, 5)) == 0, "late": draw(st.integers(0, 3)) == 0}


@st.composite
def _inlspec(draw):
    return {"t": draw(st.sampled_from(["i", "s", "tup", "i"])), "na": draw(st.integers(0, 5)), "nb": draw(st.integers(0, 5)), "n": draw(_name),
            "le": draw(st.integers(0, 5)) == 0, "late": draw(st.integers(0, 3)) == 0}


def _leaf_items():
    return st.one_of(
        st.tuples(st.just("B"), _k).map(list),
        st.tuples(st.just("B"), _k).map(list),
        st.tuples(st.just("R"), _k).map(list),
        st.tuples(st.just("BM"), _k).map(list),
        st.tuples(st.just("C"), st.integers(0, 3)).map(list),
        st.tuples(st.just("X"), st.integers(0, 1), st.integers(0, 2)).map(list),
        st.tuples(st.just("XS"), st.integers(0, 1), st.integers(0, 2)).map(list),
    )


def _leaf_preds():
    return st.one_of(
        st.tuples(st.just("eq"), _k, st.booleans()).map(list),
        st.tuples(st.just("teq"), _k).map(list),
        st.tuples(st.just("gt"), _k).map(list),
        st.tuples(st.just("in"), st.integers(0, 1), st.booleans()).map(list),
        st.tuples(st.just("in"), st.integers(0, 1), st.just(False)).map(list),
        st.tuples(st.just("in"), st.integers(0, 1), st.just(False)).map(list),
    )


_preds = st.recursive(
    _leaf_preds(),
    lambda ch: st.one_of(
        st.tuples(st.sampled_from(["or", "and"]), ch, ch).map(list),
        st.tuples(st.just("not"), ch).map(list),
        st.tuples(st.just("ex"), ch).map(list),
    ),
    max_leaves=4,
)
_items = st.recursive(
    _leaf_items(),
    lambda ch: st.one_of(
        st.tuples(st.just("Q"), ch, st.one_of(st.none(), _leaf_preds())).map(list),
        st.tuples(st.just("F"), ch, ch).map(list),
    ),
    max_leaves=3,
)


@st.composite
def _programs(draw):
    shape = draw(st.sampled_from(["select", "select", "select", "select", "insert", "update", "delete", "insert_from_select"]))
    prog = {
        "fam": draw(st.integers(0, len(FAMILIES) - 1)),
        "shape": shape,
        "binds": draw(st.lists(_bindspec(), min_size=3, max_size=8)),
        "inl": draw(st.one_of(st.lists(_inlspec(), min_size=1, max_size=2), st.lists(_inlspec(), min_size=1, max_size=2), st.lists(_inlspec(), min_size=0, max_size=1))),
        "ctes": draw(st.lists(st.fixed_dictionaries({"items": st.lists(_leaf_items(), min_size=1, max_size=3), "preds": st.lists(_leaf_preds(), max_size=2),
                                                      "tbl": st.booleans(), "lim": st.booleans()}), max_size=2)),
        "sel": draw(st.lists(_items, min_size=1, max_size=4)),
        "where": draw(st.lists(_preds, max_size=3)),
    }
    if shape == "select":
        prog["agg"] = draw(st.one_of(st.none(), st.none(), _k))
        prog["order"] = draw(st.lists(_leaf_preds(), max_size=2))
        prog["lim"] = draw(st.one_of(st.none(), st.integers(1, 6)))
        prog["off"] = draw(st.one_of(st.none(), st.none(), st.integers(0, 3)))
    else:
        prog["ret"] = draw(st.one_of(st.none(), st.lists(_leaf_items(), min_size=1, max_size=3)))
        if shape in ("insert", "update"):
            prog["vals"] = draw(st.dictionaries(st.sampled_from(["a", "b", "c"]), _items, min_size=1, max_size=3))
    return prog


@st.composite
def _many_programs(draw):
    return {
        "fam": draw(st.integers(0, len(FAMILIES) - 1)),
        "cols": draw(st.lists(st.integers(0, 3), min_size=3, max_size=3)),
        "rows": draw(st.integers(1, 7)),
        "page": draw(st.integers(1, 4)),
        "ret": draw(st.booleans()),
        "retbind": draw(st.booleans()),
        "retname": draw(st.integers(0, len(NAMES) - 1)),
        "sorted": draw(st.integers(0, 3)) == 0,
        "multi": draw(st.integers(0, 5)) == 0,
        "names": draw(st.lists(st.integers(0, len(NAMES) - 1), min_size=3, max_size=3)),
        "cn": draw(st.lists(st.integers(0, 3), min_size=3, max_size=3)),
    }


def subs(tier):
    return [
        Generated("stmt", check_stmt, strategy=_programs(), quick=1600, thorough=60000, budget_s_quick=40.0),
        Generated("live", check_live, strategy=_programs(), quick=1200, thorough=40000, budget_s_quick=25.0),
        Generated("many", check_many, strategy=_many_programs(), quick=1000, thorough=20000, budget_s_quick=15.0),
        Generated("many_live", check_many_live, strategy=_many_programs(), quick=600, thorough=15000, budget_s_quick=10.0),
    ]
