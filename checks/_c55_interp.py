"""C55 program interpreter, executed verbatim by BOTH sides of the differential.

``run(fam, case)`` builds real objects from a JSON-able program, runs it and
returns a canonical, JSON-able trace (list of entries).  The parent (check
process, pure-Python build) and the persistent child (compiled build, see
``_c55_child.py``) import this very file, so any difference between the two
traces comes from the ``*_cy`` modules, not from the harness.

Trace entry forms
    [label, "ret", <canon value>]                              op returned
    [label, "exc", <exception type name>, <message>, <module>]  op raised
    [label, "fx",  <canon snapshot>]                           observable state after the op
(label = "<op index>:<op name>")
"""
from __future__ import annotations

import copy
import operator
import pickle
import re
import types
import warnings

_ADDR = re.compile(r" at 0x[0-9a-fA-F]+")

# ------------------------------------------------------------------ helper classes (module level: picklable, stable repr)


class P:
    """plain pool object: identity hash/eq, repr independent of id()"""

    __slots__ = ("i", "__weakref__")

    def __init__(self, i):
        self.i = i

    def __hash__(self):  # deterministic across processes (plain-set iteration order must not depend on id())
        return self.i

    def __repr__(self):
        return f"P{self.i}"


class AllEq:
    """hostile equality: equal to everything, constant hash"""

    def __init__(self, i):
        self.i = i

    def __eq__(self, other):
        return True

    def __hash__(self):
        return 1

    def __repr__(self):
        return f"E{self.i}"


class Unh(list):
    """unhashable, equal to its twins"""

    def __repr__(self):
        return "U" + list.__repr__(self)


class MyInt(int):
    pass


class MyStr(str):
    pass


class MyTuple(tuple):
    pass


class MyList(list):
    pass


class MyDict(dict):
    pass


class Idx:
    """object usable as an index via __index__"""

    def __init__(self, i):
        self.i = i

    def __index__(self):
        return self.i

    def __repr__(self):
        return f"Idx({self.i})"


class BadFloat:
    def __float__(self):
        raise ValueError("no float")

    def __str__(self):
        raise RuntimeError("no str")

    def __bool__(self):
        raise ZeroDivisionError("no bool")

    def __repr__(self):
        return "BadFloat()"


class OddFloat:
    def __float__(self):
        return 2.5

    def __str__(self):
        return "odd"

    def __bool__(self):
        return False

    def __repr__(self):
        return "OddFloat()"


class StrReturnsInt:
    def __str__(self):
        return 5  # type: ignore

    def __repr__(self):
        return "StrReturnsInt()"


class RModStr(str):
    def __rmod__(self, other):
        return "7.25"


class ABCMapping:
    """registered as collections.abc.Mapping, not a dict"""

    def __init__(self, d):
        self._d = dict(d)

    def __getitem__(self, k):
        return self._d[k]

    def __iter__(self):
        return iter(self._d)

    def __len__(self):
        return len(self._d)

    def keys(self):
        return self._d.keys()

    def __repr__(self):
        return f"ABCMapping({self._d!r})"


def _register():
    from collections.abc import Mapping

    Mapping.register(ABCMapping)


_register()


class StubParentNoRaise:
    """ResultMetaData stand-in whose _key_not_found returns normally"""

    def __init__(self, k2i):
        self._key_to_index = k2i
        self.keys = [k for k in k2i if isinstance(k, str)]
        self.calls = []

    def _key_not_found(self, key, attr_error):
        self.calls.append((key, attr_error))
        return None

    def _has_key(self, key):
        return key in self._key_to_index

    def __repr__(self):
        return "StubParent"


def _double(x):
    return x * 2


def _boom(x):
    raise LookupError("proc boom")


def _ident(x):
    return x


PROCS = {"none": None, "str": str, "int": int, "double": _double, "boom": _boom, "ident": _ident}

# ------------------------------------------------------------------ canonical form


class Canon:
    def __init__(self):
        self.idnames = {}

    def name_id(self, obj, name):
        self.idnames[id(obj)] = name

    def __call__(self, v, d=0):
        return self.cv(v, d)

    def cv(self, v, d=0):
        from sqlalchemy.engine.row import BaseRow
        from sqlalchemy.util import IdentitySet, OrderedSet

        t = type(v).__name__
        if d > 6:
            return [t, "..."]
        if isinstance(v, str):
            return [t, _ADDR.sub(" at 0x?", repr(v))]  # default object reprs embed id()
        if v is None or v is NotImplemented or isinstance(v, (bool, bytes, float, complex)):
            return [t, repr(v)]
        if isinstance(v, int):
            if self.idnames and int(v) in self.idnames:
                return [t, "id:" + self.idnames[int(v)]]
            return [t, repr(int(v))]
        if isinstance(v, BaseRow):
            return [t, [self.cv(x, d + 1) for x in tuple.__iter__(v._to_tuple_instance())] if isinstance(v._to_tuple_instance(), tuple) else repr(v._to_tuple_instance())]
        if isinstance(v, OrderedSet):
            return [t, [self.cv(x, d + 1) for x in v], sorted(repr(x) for x in set.__iter__(v))]
        if isinstance(v, IdentitySet):
            return [t, [self.cv(x, d + 1) for x in v]]
        if isinstance(v, (tuple, list)):
            return [t, [self.cv(x, d + 1) for x in v]]
        if isinstance(v, dict):
            return [t, [[self.cv(k, d + 1), self.cv(x, d + 1)] for k, x in dict.items(v)]]
        if isinstance(v, (set, frozenset)):
            return [t, sorted(repr(x) for x in v)]
        if isinstance(v, types.MappingProxyType):
            return [t, [[self.cv(k, d + 1), self.cv(x, d + 1)] for k, x in v.items()]]
        if isinstance(v, (slice, operator.itemgetter, type)):
            return [t, repr(v)]
        if callable(v):
            # bound dunder methods are `method` objects in the pure build and `method-wrapper`s of a cdef class: compare by name only
            return ["callable", getattr(v, "__name__", "?")]
        r = repr(v)
        if " at 0x" in r:
            r = r.split(" at 0x")[0] + ">"
        return [t, r]


def _exc_entry(e):
    return ["exc", type(e).__name__, _ADDR.sub(" at 0x?", str(e))[:200], type(e).__module__]


class Tracer:
    def __init__(self):
        self.c = Canon()
        self.trace = []
        self.label = "init"

    def at(self, i, op):
        self.label = f"{i}:{op}"

    def do(self, fn, *a, **kw):
        """run one observable action; record return value or exception"""
        try:
            r = fn(*a, **kw)
        except RecursionError:
            raise
        except Exception as e:  # noqa: the exception type IS the observation
            self.trace.append([self.label] + _exc_entry(e))
            return _FAILED
        self.trace.append([self.label, "ret", self.c(r)])
        return r

    def fx(self, value):
        self.trace.append([self.label, "fx", self.c(value)])

    def raw(self, *entry):
        self.trace.append([self.label] + list(entry))


class _Failed:
    def __repr__(self):
        return "<failed>"


_FAILED = _Failed()

# ------------------------------------------------------------------ value tables


def value_table():
    """values used by the collection / row families (index = spec)"""
    return [
        0, 1, 2, 3, 4, 5,
        1.0, True, "a", "b", None, (1, 2),
        Unh([9]), 2**70, -1, AllEq(15), P(16), P(17), MyInt(2), "", b"a", float("nan"),
    ]


HASHABLE_N = 12  # table[:12] are hashable, well behaved values


def mk_arg(kind, vals, tab, OrderedSet, live, cur):
    xs = [tab[v % len(tab)] for v in vals]
    if kind == "list":
        return list(xs)
    if kind == "tuple":
        return tuple(xs)
    # plain sets: no unhashables, and no NaN (hash(nan) is id()-based, so set order would differ between processes)
    if kind == "set":
        return set(x for x in xs if not isinstance(x, Unh) and x == x)
    if kind == "frozenset":
        return frozenset(x for x in xs if not isinstance(x, Unh) and x == x)
    if kind == "gen":
        return (x for x in xs)
    if kind == "dictkeys":
        return dict.fromkeys(x for x in xs if not isinstance(x, Unh)).keys()
    if kind == "dict":
        return dict.fromkeys(x for x in xs if not isinstance(x, Unh))
    if kind == "oset":
        return OrderedSet(x for x in xs if not isinstance(x, Unh))
    if kind == "self":
        return cur
    if kind == "ref":
        return live[(vals[0] if vals else 0) % len(live)] if live else cur
    if kind == "str":
        return "".join(str(v % 4) for v in vals)
    if kind == "none":
        return None
    if kind == "int":
        return 7
    if kind == "badgen":
        def g():
            for x in xs[:1]:
                yield x
            raise OSError("gen boom")
        return g()
    raise ValueError(kind)


BOUNDARY = {
    "huge": 2**80, "neghuge": -(2**80), "none": None, "float": 1.0, "bool": True, "str": "1", "idx": "IDX",
    "slice": slice(0, 2), "myint": MyInt(1), "ssize_max": 2**63 - 1, "ssize_over": 2**63,
}


def boundary(spec):
    v = BOUNDARY[spec]
    return Idx(1) if v == "IDX" else v


# ------------------------------------------------------------------ family: OrderedSet / unique_list
BIN = {"or": operator.or_, "and": operator.and_, "sub": operator.sub, "xor": operator.xor, "add_op": operator.add,
       "le": operator.le, "lt": operator.lt, "ge": operator.ge, "gt": operator.gt, "eq": operator.eq, "ne": operator.ne}
IOP = {"ior": operator.ior, "iand": operator.iand, "isub": operator.isub, "ixor": operator.ixor}


def run_coll(case, T):
    from sqlalchemy.util import OrderedSet
    from sqlalchemy.util._collections_cy import unique_list

    tab = value_table()
    live = []

    def snap(o):
        return [list(o), sorted(repr(x) for x in set.__iter__(o)), len(o)]

    for kind, vals in case["init"]:
        r = T.do(OrderedSet, mk_arg(kind, vals, tab, OrderedSet, live, None))
        if r is not _FAILED:
            live.append(r)
    if not live:
        live.append(OrderedSet())
    for _i, opd in enumerate(case["ops"]):
        T.at(_i, opd[0])
        op, ti, x, pos, args = opd
        o = live[ti % len(live)]
        xv = tab[x % len(tab)]
        mk = lambda a: mk_arg(a[0], a[1], tab, OrderedSet, live, o)  # noqa
        a0 = args[0] if args else ["list", []]
        if op == "new":
            r = T.do(OrderedSet, mk(a0))
            if r is not _FAILED and len(live) < 4:
                live.append(r)
        elif op == "new_noarg":
            T.do(OrderedSet)
        elif op == "unique_list":
            T.do(unique_list, mk(a0))
        elif op in ("add", "remove", "discard"):
            T.do(getattr(o, op), xv)
        elif op == "contains":
            T.do(operator.contains, o, xv)
        elif op == "insert":
            T.do(o.insert, pos, xv)
        elif op == "insert_b":
            T.do(o.insert, boundary(pos), xv)
        elif op == "getitem":
            T.do(operator.getitem, o, pos)
        elif op == "getitem_b":
            T.do(operator.getitem, o, boundary(pos))
        elif op in ("pop", "clear"):
            T.do(getattr(o, op))
        elif op == "copy":
            r = T.do(o.copy)
            if r is not _FAILED:
                T.raw("fx", ["is-self", r is o])
                if len(live) < 4:
                    live.append(r)
        elif op == "len":
            T.do(len, o)
        elif op == "iter":
            T.do(list, o)
        elif op == "repr":
            T.do(repr, o)
        elif op == "str":
            T.do(str, o)
        elif op == "bool":
            T.do(bool, o)
        elif op == "hash":
            T.do(hash, o)
        elif op == "reversed":
            T.do(lambda: list(reversed(o)))
        elif op in ("update", "union", "intersection", "difference", "intersection_update", "difference_update"):
            T.do(getattr(o, op), *[mk(a) for a in args])
        elif op in ("symmetric_difference", "symmetric_difference_update", "issubset", "issuperset", "isdisjoint"):
            T.do(getattr(o, op), mk(a0))
        elif op in BIN:
            T.do(BIN[op], o, mk(a0))
        elif op.startswith("r_") and op[2:] in BIN:
            T.do(BIN[op[2:]], mk(a0), o)
        elif op in IOP:
            r = T.do(IOP[op], o, mk(a0))
            if r is not _FAILED:
                T.raw("fx", ["is-self", r is o])
        elif op == "pickle":
            T.do(lambda: pickle.loads(pickle.dumps(o, 2 + pos % 4)))
        elif op == "copycopy":
            T.do(copy.copy, o)
        elif op == "deepcopy":
            T.do(copy.deepcopy, o)
        elif op == "class_getitem":
            T.do(lambda: OrderedSet[int] is OrderedSet)
        elif op == "setattr":
            T.do(setattr, o, "foo", 1)
        elif op == "kwarg":
            T.do(lambda: o.add(element=xv))
        else:
            raise ValueError(op)
        T.fx(snap(o))
    for o in live:
        T.fx(snap(o))


# ------------------------------------------------------------------ family: IdentitySet
def run_iset(case, T):
    from sqlalchemy.util import IdentitySet

    pool = [P(0), P(1), AllEq(2), AllEq(3), Unh([4]), Unh([4]), "s", 7, None, (1, 2)]

    class SubIS(IdentitySet):
        pass

    def mk(kind, vals, cur):
        xs = [pool[v % len(pool)] for v in vals]
        if kind == "list":
            return xs
        if kind == "tuple":
            return tuple(xs)
        if kind == "gen":
            return (x for x in xs)
        if kind == "iset":
            return IdentitySet(xs)
        if kind == "sub":
            return SubIS(xs)
        if kind == "self":
            return cur
        if kind == "set":
            return set(x for x in xs if not isinstance(x, Unh))
        if kind == "none":
            return None
        if kind == "int":
            return 3
        if kind == "dict":
            return {i: x for i, x in enumerate(xs)}
        raise ValueError(kind)

    kind, vals = case["init"]
    s = T.do(IdentitySet if kind != "sub" else SubIS, mk("list" if kind in ("iset", "sub", "self") else kind, vals, None))
    if s is _FAILED:
        s = IdentitySet()
    for _i, opd in enumerate(case["ops"]):
        T.at(_i, opd[0])
        op, i, arg = opd
        x = pool[i % len(pool)]
        a = mk(arg[0], arg[1], s)
        if op in ("add", "remove", "discard"):
            T.do(getattr(s, op), x)
        elif op == "contains":
            T.do(operator.contains, s, x)
        elif op in ("pop", "clear", "copy", "__copy__"):
            r = T.do(getattr(s, op))
            if op in ("copy", "__copy__") and r is not _FAILED:
                T.raw("fx", ["type", type(r).__name__, r is s])
        elif op == "len":
            T.do(len, s)
        elif op == "iter":
            T.do(list, s)
        elif op == "repr":
            T.do(repr, s)
        elif op == "hash":
            T.do(hash, s)
        elif op == "bool":
            T.do(bool, s)
        elif op in ("union", "update", "difference", "difference_update", "intersection", "intersection_update",
                    "symmetric_difference", "symmetric_difference_update", "issubset", "issuperset"):
            r = T.do(getattr(s, op), a)
            if r is not _FAILED and isinstance(r, IdentitySet):
                T.raw("fx", ["type", type(r).__name__, r is s])
        elif op in BIN and op != "add_op":
            T.do(BIN[op], s, a)
        elif op.startswith("r_"):
            T.do(BIN[op[2:]], a, s)
        elif op in IOP:
            r = T.do(IOP[op], s, a)
            if r is not _FAILED:
                T.raw("fx", ["is-self", r is s])
                if isinstance(r, IdentitySet):
                    s = r
        elif op == "pickle":
            T.do(lambda: pickle.loads(pickle.dumps(s, 2 + i % 4)))
        elif op == "copycopy":
            T.do(copy.copy, s)
        elif op == "new_none":
            T.do(IdentitySet, None)
        elif op == "setattr":
            T.do(setattr, s, "foo", 1)
        else:
            raise ValueError(op)
        T.fx([list(s), len(s)])


# ------------------------------------------------------------------ family: immutabledict
def run_idict(case, T):
    from sqlalchemy.util import immutabledict
    from sqlalchemy.util._immutabledict_cy import ImmutableDictBase, ReadOnlyContainer

    class SubBase(ImmutableDictBase):
        pass

    class RO(ReadOnlyContainer, dict):
        pass

    class SubImm(immutabledict):
        pass

    def mk(kind, items):
        d = {k: v for k, v in items}
        if kind == "none":
            return None
        if kind == "dict":
            return d
        if kind == "imm":
            return immutabledict(d)
        if kind == "subimm":
            return SubImm(d)
        if kind == "mydict":
            return MyDict(d)
        if kind == "mapping":
            return types.MappingProxyType(d)
        if kind == "abcmap":
            return ABCMapping(d)
        if kind == "empty_imm":
            return immutabledict()
        if kind == "pairs":
            return list(d.items())
        if kind == "int":
            return 5
        if kind == "str":
            return "ab"
        if kind == "base":
            return SubBase(d)
        raise ValueError(kind)

    base = case["base"]
    if base == "imm":
        d = T.do(immutabledict, mk("dict", case["init"]))
    elif base == "imm_kw":
        d = T.do(lambda: immutabledict(**{str(k): v for k, v in case["init"]}))
    elif base == "subbase":
        d = T.do(SubBase, mk("dict", case["init"]))
    elif base == "ro":
        d = T.do(RO, mk("dict", case["init"]))
    elif base == "subimm":
        d = T.do(SubImm, mk("dict", case["init"]))
    else:
        raise ValueError(base)
    if d is _FAILED:
        return
    is_imm = isinstance(d, immutabledict)
    for _i, opd in enumerate(case["ops"]):
        T.at(_i, opd[0])
        op, k, v, specs, cont = opd
        if op == "setitem":
            T.do(operator.setitem, d, k, v)
        elif op == "delitem":
            T.do(operator.delitem, d, k)
        elif op == "clear":
            T.do(lambda: d.clear())
        elif op == "pop":
            T.do(lambda: d.pop(k))
        elif op == "pop2":
            T.do(lambda: d.pop(k, v))
        elif op == "pop0":
            T.do(lambda: d.pop())
        elif op == "popitem":
            T.do(lambda: d.popitem())
        elif op == "setdefault":
            T.do(lambda: d.setdefault(k, v))
        elif op == "setdefault1":
            T.do(lambda: d.setdefault(k))
        elif op == "update":
            T.do(lambda: d.update({k: v}))
        elif op == "update_kw":
            T.do(lambda: d.update(a=v))
        elif op == "update0":
            T.do(lambda: d.update())
        elif op == "ior":
            def f():
                nonlocal d
                d2 = d
                d2 |= {k: v}
                return d2
            T.do(f)
        elif op == "setattr":
            T.do(setattr, d, "foo", v)
        elif op == "delattr":
            T.do(delattr, d, "foo")
        elif op in ("union", "merge_with"):
            if not is_imm:
                T.do(lambda: getattr(d, op))
                continue
            args = [mk(s[0], s[1]) for s in specs]
            r = T.do(getattr(d, op), *args)
            if r is not _FAILED:
                T.raw("fx", ["result", type(r).__name__, r is d, [r is a for a in args]])
                for a in args:
                    if type(a) in (dict, MyDict):
                        a["__poison__"] = 1
                T.fx(r)
                if cont and isinstance(r, immutabledict):
                    d = r
        elif op in ("or", "ror"):
            a = mk(specs[0][0], specs[0][1]) if specs else {}
            r = T.do(operator.or_, *((d, a) if op == "or" else (a, d)))
            if r is not _FAILED:
                T.raw("fx", ["result", type(r).__name__, r is d, r is a])
                if cont and isinstance(r, immutabledict):
                    d = r
        elif op == "copy":
            r = T.do(lambda: d.copy())
            if r is not _FAILED:
                T.raw("fx", ["is-self", r is d, type(r).__name__])
        elif op == "pickle":
            T.do(lambda: pickle.loads(pickle.dumps(d, 2 + v % 4)))
        elif op == "reduce":
            # only immutabledict defines __reduce__ itself; for the other classes the reduce tuple is an implementation detail of the
            # build (auto-generated __reduce_cython__ vs copyreg), only the round trip is observable behaviour
            if is_imm and type(d) is immutabledict:
                T.do(lambda: (lambda r: [r[0].__name__, r[1]])(d.__reduce__()))
            else:
                T.do(lambda: pickle.loads(pickle.dumps(d, 2)))
        elif op == "copycopy":
            T.do(copy.copy, d)
        elif op == "deepcopy":
            T.do(copy.deepcopy, d)
        elif op == "read":
            T.do(lambda: [k in d, d.get(k), len(d), list(d), d == dict(d), dict(d) == d, list(reversed(d))])
        elif op == "getitem":
            T.do(operator.getitem, d, k)
        elif op == "repr":
            T.do(repr, d)
        elif op == "hash":
            T.do(hash, d)
        elif op == "class_getitem":
            T.do(lambda: type(d)[str, int] is type(d))
        elif op == "fromkeys":
            T.do(lambda: type(d).fromkeys([k, v]))
        elif op == "init_again":
            T.do(lambda: d.__init__({k: v}))
        elif op == "dict_setitem":
            # documented escape hatch used by the library itself (dict.__setitem__(imm, ...))
            T.do(lambda: dict.__setitem__(d, k, v))
        else:
            raise ValueError(op)
        T.fx(d)


# ------------------------------------------------------------------ family: BaseRow / Row / RowMapping
def _row_val(spec, tab):
    return tab[spec % len(tab)]


def run_row(case, T):
    from sqlalchemy.engine import _row_cy
    from sqlalchemy.engine.result import SimpleResultMetaData
    from sqlalchemy.engine.row import BaseRow, Row, RowMapping

    tab = value_table()
    classes = {"BaseRow": BaseRow, "Row": Row, "RowMapping": RowMapping}
    keys = list(case["keys"])
    ncol = len(keys)

    def mkdata(kind, vals):
        xs = [tab[v % len(tab)] for v in vals]
        if kind == "tuple":
            return tuple(xs)
        if kind == "list":
            return xs
        if kind == "mytuple":
            return MyTuple(xs)
        if kind == "row":
            md = SimpleResultMetaData([f"c{i}" for i in range(len(xs))])
            return Row(md, None, md._key_to_index, tuple(xs))
        if kind == "str":
            return "".join("xyz"[v % 3] for v in vals)
        if kind == "gen":
            return (x for x in xs)
        if kind == "none":
            return None
        if kind == "dictkeys":
            return dict.fromkeys(range(len(xs))).keys()
        raise ValueError(kind)

    def mkprocs(spec):
        if spec is None:
            return None
        kind, names = spec
        ps = [PROCS[n] for n in names]
        return tuple(ps) if kind == "tuple" else ps

    def mkparent(kind):
        if kind == "simple":
            md = SimpleResultMetaData(keys)
            return md, md._key_to_index
        if kind == "extra":
            md = SimpleResultMetaData(keys, extra=[(P(100 + i), i * 10 + 1000) for i in range(ncol)])
            return md, md._key_to_index
        if kind == "stub":
            k2i = {k: i for i, k in enumerate(keys)}
            return StubParentNoRaise(k2i), k2i
        if kind == "oddk2i":
            # custom key_to_index: out-of-range, negative, slice and non-int "indexes"
            md = SimpleResultMetaData(keys)
            k2i = dict(md._key_to_index)
            k2i.update({"far": 99, "neg": -1, "sl": slice(0, 2), "bad": "x", "zero": 0, "_priv": 0, "__len__": 0, "count": 0})
            return md, k2i
        raise ValueError(kind)

    def mkrow(spec):
        cls = classes[spec["cls"]]
        parent, k2i = mkparent(spec["parent"])
        data = mkdata(spec["dk"], spec["data"])
        r = T.do(cls, parent, mkprocs(spec.get("procs")), k2i, data)
        if spec["dk"] in ("list", "tuple", "mytuple"):
            T.raw("fx", ["source-after-init", type(data).__name__, T.c(list(data))])  # the source container must not be written to
        return r

    rows = []
    for spec in case["rows"]:
        r = mkrow(spec)
        if r is not _FAILED:
            rows.append(r)
            T.fx([type(r).__name__, r._to_tuple_instance(), type(r._to_tuple_instance()).__name__])
    if not rows:
        return
    attr_names = case.get("names") or []

    def other(spec):
        kind, vals = spec
        if kind == "rowref":
            return rows[(vals[0] if vals else 0) % len(rows)]
        if kind == "int":
            return 5
        return mkdata(kind, vals)

    for _i, opd in enumerate(case["ops"]):
        T.at(_i, opd[0])
        op, ri, a, b = opd
        r = rows[ri % len(rows)]
        if op == "getitem":
            T.do(operator.getitem, r, a)
        elif op == "getitem_slice":
            T.do(operator.getitem, r, slice(a[0], a[1], a[2]))
        elif op == "getitem_b":
            T.do(operator.getitem, r, boundary(a))
        elif op == "getitem_key":
            T.do(operator.getitem, r, attr_names[a % len(attr_names)] if attr_names else "c0")
        elif op == "getattr":
            T.do(getattr, r, attr_names[a % len(attr_names)] if attr_names else "c0")
        elif op == "getattr_default":
            T.do(getattr, r, attr_names[a % len(attr_names)] if attr_names else "c0", "DEFAULT")
        elif op == "hasattr":
            T.do(hasattr, r, attr_names[a % len(attr_names)] if attr_names else "c0")
        elif op == "mapping_get":
            T.do(lambda: r._get_by_key_impl_mapping(attr_names[a % len(attr_names)] if attr_names else "c0"))
        elif op == "mapping_get_int":
            T.do(lambda: r._get_by_key_impl_mapping(a))
        elif op == "mapping_get_unhashable":
            T.do(lambda: r._get_by_key_impl_mapping([1]))
        elif op == "len":
            T.do(len, r)
        elif op == "iter":
            T.do(list, r)
        elif op == "hash":
            # the raw hash of pool objects is id()-based: record only the documented relation
            T.do(lambda: hash(r) == hash(r._to_tuple_instance()))
        elif op == "contains":
            T.do(operator.contains, r, tab[a % len(tab)])
        elif op == "repr":
            T.do(repr, r)
        elif op == "bool":
            T.do(bool, r)
        elif op in ("eq", "ne", "lt", "le", "gt", "ge"):
            T.do(BIN[op], r, other(b))
        elif op in ("r_eq", "r_lt", "r_ge"):
            T.do(BIN[op[2:]], other(b), r)
        elif op == "setattr":
            T.do(setattr, r, attr_names[a % len(attr_names)] if attr_names else "c0", 1)
        elif op == "setattr_data":
            T.do(setattr, r, "_data", (1,))
        elif op == "delattr":
            T.do(delattr, r, attr_names[a % len(attr_names)] if attr_names else "c0")
        elif op == "values_impl":
            T.do(r._values_impl)
        elif op == "to_tuple":
            t = T.do(r._to_tuple_instance)
            T.raw("fx", ["type", type(t).__name__])
        elif op == "attrs":
            T.do(lambda: [type(r._parent).__name__, r._data, r._key_to_index is not None, type(r._key_to_index).__name__])
        elif op == "mapping":
            m = T.do(lambda: r._mapping)
            if m is not _FAILED:
                T.do(lambda: [type(m).__name__, dict(m), list(m.keys()), list(m.values()), list(m.items()), len(m), repr(m)])
                T.do(lambda: [k in m for k in attr_names])
        elif op == "asdict":
            T.do(lambda: r._asdict())
        elif op == "fields":
            T.do(lambda: r._fields)
        elif op == "filter_on_values":
            T.do(lambda: r._filter_on_values(mkprocs(b)))
        elif op == "count":
            T.do(lambda: r.count(tab[a % len(tab)]))
        elif op == "index":
            T.do(lambda: r.index(tab[a % len(tab)]))
        elif op == "keys":
            T.do(lambda: list(r.keys()))
        elif op == "items":
            T.do(lambda: [list(r.items()), list(r.values())])
        elif op == "pickle":
            def f():
                r2 = pickle.loads(pickle.dumps(r, 2 + a % 4))
                return [type(r2).__name__, r2._to_tuple_instance(), type(r2._parent).__name__, r2._key_to_index == r._key_to_index,
                        r2 == r if hasattr(type(r), "_op") else None, list(r2._parent.keys) if hasattr(r2._parent, "keys") else None]
            T.do(f)
        elif op == "reduce":
            T.do(lambda: (lambda x: [x[0].__name__, x[1][0].__name__, sorted(x[1][1]), x[1][1]["_data"]])(r.__reduce__()))
        elif op == "getstate":
            T.do(lambda: (lambda s: [sorted(s), s["_data"], s["_parent"] is r._parent])(r.__getstate__()))
        elif op == "setstate":
            def f():
                r2 = type(r).__new__(type(r))
                st = {"_parent": r._parent, "_data": mkdata(b[0], b[1])}
                if a == 1:
                    del st["_data"]
                elif a == 2:
                    st["_parent"] = None
                r2.__setstate__(st)
                return [r2._data, r2._key_to_index is r._parent._key_to_index]
            T.do(f)
        elif op == "reconstructor":
            def f():
                cls = [BaseRow, Row, RowMapping, tuple, P][a % 5]
                r2 = _row_cy.rowproxy_reconstructor(cls, {"_parent": r._parent, "_data": r._data})
                return [type(r2).__name__, r2._data]
            T.do(f)
        elif op == "copycopy":
            T.do(lambda: (lambda r2: [type(r2).__name__, r2._data, r2 is r])(copy.copy(r)))
        elif op == "tuple":
            T.do(tuple, r)
        elif op == "unpack":
            T.do(lambda: (lambda *xs: list(xs))(*r))
        elif op == "add":
            T.do(lambda: r + (1,))
        elif op == "sorted":
            T.do(lambda: sorted(rows))
        elif op == "dictkey":
            T.do(lambda: {r: 1}[r._to_tuple_instance()])
        elif op == "init_kw":
            T.do(lambda: type(r)(parent=r._parent, processors=None, key_to_index=r._key_to_index, data=r._data))
        elif op == "init_badk2i":
            T.do(lambda: type(r)(r._parent, None, [("a", 0)][: a % 2] if a < 2 else types.MappingProxyType({"a": 0}), r._data)._key_to_index)
        else:
            raise ValueError(op)
    for r in rows:
        T.fx(r._to_tuple_instance())
        if isinstance(r._parent, StubParentNoRaise):
            T.fx(r._parent.calls)


# ------------------------------------------------------------------ family: processors
def mk_pval(spec):
    import datetime
    import decimal
    import fractions

    k, v = spec
    if k == "none":
        return None
    if k == "int":
        return int(v)
    if k == "bool":
        return bool(v)
    if k == "float":
        return float(v)
    if k == "str":
        return v
    if k == "mystr":
        return MyStr(v)
    if k == "myint":
        return MyInt(v)
    if k == "bytes":
        return v.encode("latin1", "replace")
    if k == "bytearray":
        return bytearray(v.encode("latin1", "replace"))
    if k == "dec":
        try:
            return decimal.Decimal(v)
        except decimal.InvalidOperation:
            return decimal.Decimal("NaN")
    if k == "frac":
        return fractions.Fraction(int(v), 3)
    if k == "complex":
        return complex(int(v), 1)
    if k == "tuple":
        return tuple(mk_pval(x) for x in v)
    if k == "list":
        return [mk_pval(x) for x in v]
    if k == "dict":
        return {"a": mk_pval(x) for x in v[:1]}
    if k == "obj":
        return {"bad": BadFloat, "odd": OddFloat, "strint": StrReturnsInt, "p": lambda: P(1), "rmod": lambda: RModStr("x"), "idx": lambda: Idx(3)}[v]()
    if k == "date":
        return datetime.date(2020, 1, 1 + int(v) % 28)
    if k == "datetime":
        return datetime.datetime(2020, 1, 1, int(v) % 24)
    if k == "time":
        return datetime.time(int(v) % 24)
    raise ValueError(k)


def run_proc(case, T):
    import decimal

    from sqlalchemy.engine import _processors_cy as pc

    types_ = {"Decimal": decimal.Decimal, "float": float, "str": str, "int": int, "repr": repr, "lambda": (lambda s: "L" + s),
              "none": None, "MyStr": MyStr, "tuple": tuple, "bytes": bytes, "boom": _boom}
    for _i, opd in enumerate(case["ops"]):
        T.at(_i, opd[0])
        fn = opd[0]
        if fn == "decimal":
            _, tname, scale, vals = opd
            sc = mk_pval(scale)
            f = T.do(pc.to_decimal_processor_factory, types_[tname], sc)
            if f is _FAILED:
                continue
            for v in vals:
                T.do(f, mk_pval(v))
        elif fn == "decimal_kw":
            _, tname, scale, vals = opd
            f = T.do(lambda: pc.to_decimal_processor_factory(type_=types_[tname], scale=mk_pval(scale)))
            if f is not _FAILED:
                for v in vals:
                    T.do(lambda: f(value=mk_pval(v)))
        elif fn == "decimal_misc":
            f = pc.to_decimal_processor_factory(decimal.Decimal, 2)
            T.do(lambda: f())
            T.do(lambda: f(1, 2))
            T.do(setattr, f, "zzz", 1)
            T.do(lambda: pc.to_decimal_processor_factory())
            T.do(lambda: pc.to_decimal_processor_factory(decimal.Decimal))
            T.do(lambda: type(pickle.loads(pickle.dumps(f))(1.5)).__name__)
        else:
            f = getattr(pc, fn)
            T.do(f, mk_pval(opd[1]))
            if len(opd) > 2 and opd[2]:
                T.do(lambda: f(value=mk_pval(opd[1])))
                T.do(lambda: f())


# ------------------------------------------------------------------ family: engine/_util_cy
def mk_params(spec):
    import collections

    from sqlalchemy.util import immutabledict

    k = spec[0]
    sub = [mk_params(s) for s in (spec[1] if len(spec) > 1 else [])]
    if k == "none":
        return None
    if k == "dict":
        return {"a": 1} if not sub else {"k": sub[0]}
    if k == "emptydict":
        return {}
    if k == "imm":
        return immutabledict({"a": 1})
    if k == "mydict":
        return MyDict(a=1)
    if k == "mappingproxy":
        return types.MappingProxyType({"a": 1})
    if k == "abcmap":
        return ABCMapping({"a": 1})
    if k == "list":
        return list(sub)
    if k == "mylist":
        return MyList(sub)
    if k == "tuple":
        return tuple(sub)
    if k == "mytuple":
        return MyTuple(sub)
    if k == "namedtuple":
        return collections.namedtuple("NT", "x")(1)
    if k == "str":
        return "ab"
    if k == "bytes":
        return b"ab"
    if k == "int":
        return 3
    if k == "set":
        return {1}
    if k == "gen":
        return (x for x in sub)
    if k == "obj":
        return P(1)
    if k == "deque":
        return collections.deque(sub)
    if k == "range":
        return range(2)
    raise ValueError(k)


def run_eutil(case, T):
    from sqlalchemy.engine import _util_cy as eu

    for _i, opd in enumerate(case["ops"]):
        T.at(_i, opd[0])
        fn = opd[0]
        if fn in ("_distill_params_20", "_distill_raw_params"):
            p = mk_params(opd[1])
            with warnings.catch_warnings(record=True) as w:
                warnings.simplefilter("always")
                r = T.do(getattr(eu, fn), p)
            T.raw("fx", ["warnings", [[type(x.message).__name__, str(x.message)] for x in w]])
            if r is not _FAILED:
                T.raw("fx", ["identity", r is p, isinstance(r, list) and len(r) == 1 and r[0] is p])
        elif fn == "distill_kw":
            T.do(lambda: eu._distill_params_20(params=None))
            T.do(lambda: eu._distill_raw_params(params=None))
            T.do(lambda: eu._distill_params_20())
        elif fn == "tuplegetter":
            idx = []
            for s in opd[1]:
                if isinstance(s, int):
                    idx.append(s)
                else:
                    idx.append(boundary(s))
            g = T.do(eu.tuplegetter, *idx)
            if g is _FAILED:
                continue
            data = list(range(10, 10 + opd[2]))
            for dk in opd[3]:
                d = {"tuple": tuple(data), "list": data, "str": "abcdefghij"[: len(data)], "row": None, "dict": dict(enumerate(data))}[dk]
                if dk == "row":
                    from sqlalchemy.engine.result import SimpleResultMetaData
                    from sqlalchemy.engine.row import Row

                    md = SimpleResultMetaData([f"c{i}" for i in range(len(data))])
                    d = Row(md, None, md._key_to_index, tuple(data))
                T.do(g, d)
        else:
            raise ValueError(fn)


# ------------------------------------------------------------------ family: sql/_util_cy
def run_anon(case, T):
    from sqlalchemy.sql import _util_cy as su

    pool = [P(i) for i in range(6)] + ["s", 3, None, (1,)]
    for i, p in enumerate(pool):
        T.c.name_id(p, f"pool{i}")
    keytab = {
        "int": lambda v: v, "str": lambda v: f"k{v}", "tuple": lambda v: (v, "t"), "none": lambda v: None, "unh": lambda v: [v],
        "bool": lambda v: bool(v % 2), "float": lambda v: float(v), "poolid": lambda v: id(pool[v % len(pool)]), "huge": lambda v: 2**70 + v,
        "neg": lambda v: -v - 1, "alleq": lambda v: AllEq(v),
    }

    class SubAnon(su.anon_map):
        extra = 5

    class SubPrefix(su.prefix_anon_map):
        pass

    which = case["which"]
    if which == "anon":
        m = T.do(su.anon_map)
    elif which == "anon_sub":
        m = T.do(SubAnon)
    elif which == "anon_init":
        m = T.do(lambda: su.anon_map({"pre": 7}))
    elif which == "prefix":
        m = T.do(su.prefix_anon_map)
    elif which == "prefix_sub":
        m = T.do(SubPrefix)
    elif which == "prefix_init":
        m = T.do(lambda: su.prefix_anon_map({"foo": 5, "1 bar": "bar_9"}))
    else:
        raise ValueError(which)
    if m is _FAILED:
        return
    is_anon = which.startswith("anon")
    for _i, opd in enumerate(case["ops"]):
        T.at(_i, opd[0])
        op, kk, kv = opd[0], opd[1], opd[2]
        key = kv if kk == "raw" else keytab[kk](kv)
        if op == "getitem":
            T.do(operator.getitem, m, key)
        elif op == "missing":
            T.do(lambda: m.__missing__(key))
        elif op == "missing_kw":
            T.do(lambda: m.__missing__(key=key))
        elif op == "get":
            T.do(lambda: m.get(key))
        elif op == "contains":
            T.do(operator.contains, m, key)
        elif op == "setitem":
            T.do(operator.setitem, m, key, opd[3] if len(opd) > 3 else True)
        elif op == "delitem":
            T.do(operator.delitem, m, key)
        elif op == "get_anon":
            if is_anon:
                T.do(m.get_anon, pool[kv % len(pool)])
            else:
                T.do(lambda: m.get_anon)
        elif op == "get_anon_fresh":
            if is_anon:
                o = P(99)
                T.c.name_id(o, "fresh")
                r = T.do(m.get_anon, o)
                T.do(m.get_anon, o)
                pool.append(o)
        elif op == "fmt":
            if kk == "poolid":
                key = "pid x"  # a raw id() must not end up inside a string key
            T.do(lambda: ("%(" + str(key) + ")s|%(" + str(key) + ")s") % m)
        elif op == "len":
            T.do(len, m)
        elif op == "pop":
            T.do(lambda: m.pop(key, "dflt"))
        elif op == "setdefault":
            T.do(lambda: m.setdefault(key, 1))
        elif op == "copy":
            T.do(lambda: (lambda c: [type(c).__name__, c])(m.copy()))
        elif op == "pickle":
            T.do(lambda: (lambda c: [type(c).__name__, c])(pickle.loads(pickle.dumps(m, 2 + kv % 4))))
        elif op == "clear":
            T.do(m.clear)
        elif op == "index_attr":
            T.do(lambda: m.index)
        elif op == "setattr":
            T.do(setattr, m, "foo", 1)
        elif op == "update":
            T.do(lambda: m.update({key: 1}))
        elif op == "eq":
            T.do(lambda: m == dict(m))
        else:
            raise ValueError(op)
        T.fx(m)


# ------------------------------------------------------------------ family: Result internals (_result_cy)
def run_result(case, T):
    from sqlalchemy.engine.result import IteratorResult, SimpleResultMetaData

    tab = [0, 1, 2, None, "a", "b", 1.0, True, (1,), 3]
    keys = list(case["keys"])
    ncol = len(keys)
    rowkind = case["rowkind"]

    def mkrow(vals):
        xs = [tab[v % len(tab)] for v in vals][:ncol]
        xs += [None] * (ncol - len(xs))
        return tuple(xs) if rowkind == "tuple" else list(xs) if rowkind == "list" else MyTuple(xs)

    data = [mkrow(v) for v in case["data"]]
    procs = None
    if case.get("procs"):
        procs = [PROCS[n] for n in case["procs"]][:ncol]
        procs += [None] * (ncol - len(procs))
    uf = None
    if case.get("uniq_filters"):
        names = case["uniq_filters"]

        def uf(result):
            return [{"none": None, "str": str, "mod2": (lambda x: x % 2 if isinstance(x, int) else x), "id": id}[n] for n in (names * ncol)[:ncol]]

    md = SimpleResultMetaData(keys, _processors=procs, _create_unique_filters=uf)
    logged = []
    res = IteratorResult(md, iter(data), raw=None)
    if case.get("log"):
        def logfn(row):
            logged.append(tuple(row))
            return row
        res._row_logging_fn = logfn
    cur = res
    for mod in case["mods"]:
        name, arg = mod
        if name == "unique":
            cur = T.do(lambda: cur.unique())
        elif name == "unique_fn":
            cur = T.do(lambda: cur.unique(lambda r: str(r)))
        elif name == "columns":
            cur = T.do(lambda: cur.columns(*[(a % ncol if isinstance(a, int) else a) for a in arg]))
        elif name == "scalars":
            cur = T.do(lambda: cur.scalars(arg % ncol))
        elif name == "mappings":
            cur = T.do(lambda: cur.mappings())
        elif name == "tuples":
            cur = T.do(lambda: cur.tuples())
        elif name == "yield_per":
            cur = T.do(lambda: cur.yield_per(arg))
        else:
            raise ValueError(name)
        if cur is _FAILED:
            return
        T.trace[-1] = [T.label, "ret", [type(cur).__name__, ""]]

    def show(x):
        from sqlalchemy.engine.row import Row, RowMapping

        if isinstance(x, RowMapping):
            return ["RowMapping", dict(x)]
        if isinstance(x, Row):
            return ["Row", x._to_tuple_instance(), list(x._fields)]
        if isinstance(x, list):
            return [show(y) for y in x]
        if isinstance(x, tuple):
            return ["tuple", x]
        return ["scalar", x]

    for _i, opd in enumerate(case["ops"]):
        T.at(_i, opd[0])
        op, a = opd
        if op == "fetchone":
            T.do(lambda: show(cur.fetchone()))
        elif op == "fetchmany":
            T.do(lambda: show(cur.fetchmany(a)))
        elif op == "all":
            T.do(lambda: show(cur.all()))
        elif op == "first":
            T.do(lambda: show(cur.first()))
        elif op == "one":
            T.do(lambda: show(cur.one()))
        elif op == "one_or_none":
            T.do(lambda: show(cur.one_or_none()))
        elif op == "scalar":
            T.do(lambda: show(cur.scalar()) if hasattr(cur, "scalar") else "n/a")
        elif op == "scalar_one":
            T.do(lambda: show(cur.scalar_one()) if hasattr(cur, "scalar_one") else "n/a")
        elif op == "scalar_one_or_none":
            T.do(lambda: show(cur.scalar_one_or_none()) if hasattr(cur, "scalar_one_or_none") else "n/a")
        elif op == "next":
            T.do(lambda: show(next(cur)))
        elif op == "iter":
            T.do(lambda: show(list(cur)))
        elif op == "partitions":
            def f():
                out = []
                for i, part in enumerate(cur.partitions(a)):
                    out.append(show(part))
                    if i >= 1:
                        break
                return out
            T.do(f)
        elif op == "raw_all_tuples":
            T.do(lambda: (lambda rows: [[type(r).__name__, tuple(r)] for r in rows])(cur._raw_all_tuples()))
        elif op == "freeze":
            def f():
                fr = cur.freeze()
                return [show(fr().all()), show(fr().all()), [list(x) for x in fr.data]]
            T.do(f)
        elif op == "close":
            T.do(lambda: cur.close())
        elif op == "keys":
            T.do(lambda: list(cur.keys()))
        else:
            raise ValueError(op)
    T.fx(logged)
    # side effects are part of interchangeability: the caller's source rows (a row cache, rows kept by the DBAPI) must be left alone by
    # BOTH implementations, and reading the same source again must give the same values
    T.label = "end:source"
    T.fx([[type(r).__name__, list(r)] for r in data])
    T.label = "end:reread"
    T.do(lambda: [show(r) for r in IteratorResult(SimpleResultMetaData(keys, _processors=procs), iter(data)).all()])
    T.fx([[type(r).__name__, list(r)] for r in data])


# ------------------------------------------------------------------ cross-build pickles (Row / immutabledict / OrderedSet)
def _x_objects(case):
    from sqlalchemy.engine.result import SimpleResultMetaData
    from sqlalchemy.engine.row import Row, RowMapping
    from sqlalchemy.util import OrderedSet, immutabledict

    tab = value_table()
    vals = [tab[v % HASHABLE_N] for v in case["data"]]
    keys = [f"k{i}" for i in range(len(vals))]
    md = SimpleResultMetaData(keys)
    procs = [PROCS[n] for n in case["procs"]][: len(vals)] if case.get("procs") else None
    if procs is not None:
        procs += [None] * (len(vals) - len(procs))
    return {
        "row": lambda: Row(md, procs, md._key_to_index, tuple(vals)),
        "rowmapping": lambda: RowMapping(md, None, md._key_to_index, tuple(vals)),
        "rows": lambda: [Row(md, None, md._key_to_index, tuple(vals)), Row(md, None, md._key_to_index, tuple(reversed(vals)))],
        "imm": lambda: immutabledict(zip(keys, vals)),
        "oset": lambda: OrderedSet(v for v in vals),
    }[case["what"]]()


def _x_describe(o):
    from sqlalchemy.engine.row import BaseRow, RowMapping

    c = Canon()
    if isinstance(o, list):
        return [_x_describe(x) for x in o]
    if isinstance(o, RowMapping):
        return [type(o).__name__, c(dict(o)), c(list(o.keys()))]
    if isinstance(o, BaseRow):
        return [type(o).__name__, c(o._to_tuple_instance()), c(list(o._fields)), c(dict(o._mapping)), c([getattr(o, k) for k in o._fields]), c(type(o._parent).__name__)]
    return [type(o).__name__, c(o)]


def run_xdump(case, T):
    """pickle in THIS build; the hex goes to the other build's run_xload"""
    T.at(0, "dump")
    T.raw("hex", pickle.dumps(_x_objects(case), case["proto"]).hex())
    T.raw("desc", _x_describe(_x_objects(case)))


def run_xload(case, T):
    T.at(0, "load")
    o = T.do(lambda: _x_describe(pickle.loads(bytes.fromhex(case["hex"]))))


FAMILIES = {
    "coll": run_coll,
    "iset": run_iset,
    "idict": run_idict,
    "row": run_row,
    "proc": run_proc,
    "eutil": run_eutil,
    "anon": run_anon,
    "result": run_result,
    "xdump": run_xdump,
    "xload": run_xload,
}


def run(fam, case):
    """returns the canonical trace of ``case`` in the current interpreter"""
    T = Tracer()
    with warnings.catch_warnings():
        warnings.simplefilter("ignore")
        FAMILIES[fam](case, T)
    return T.trace


def build_info():
    """which implementation each dual module resolved to (sanity check for both sides)"""
    import importlib

    out = {}
    for name in ("util._collections_cy", "util._immutabledict_cy", "engine._row_cy", "engine._result_cy", "engine._processors_cy",
                 "engine._util_cy", "sql._util_cy"):
        m = importlib.import_module("sqlalchemy." + name)
        out[name] = bool(m._is_compiled())
    return out
