"""C32 - a failed flush leaves the database untouched and the session recoverable.

For a generated history (E-ORM universe and interpreter of checks/_orm_flush.py)
a failure-free *control twin* is run first on its own database; the statements
of its final flush are counted (``before_cursor_execute``).  Then, for every
selected crash point, the same history is run again on a fresh database and the
final flush is made to fail at that point by

  (a) a driver error (sqlite3.OperationalError) raised at statement s,
  (b) a real IntegrityError: a row with the same unique ``uid`` is planted in
      the transaction right before the flush, so that INSERT statement s
      violates the constraint (only where statement s is an INSERT),
  (c) an exception raised from a session event (before_flush / after_flush) or
      from the k-th mapper before_insert / before_update / before_delete event.

Oracle after the failure: the flush raised; an independent connection still
sees exactly the committed rows; further SQL raises PendingRollbackError; after
Session.rollback() the independent connection sees the pre-transaction rows,
objects added in the transaction are transient, deleted ones persistent again,
loaded attributes agree with the rows (same checks as C33); then the operations
of the failed transaction are executed again without the fault, committed, and
the database must equal that of the control twin (and the model).
"""
from __future__ import annotations

import sqlite3
import warnings

from hypothesis import strategies as st

from checks import _orm_flush as E
from vf.api import Generated, Violation, canon

PROPERTY = "C32"
LEVEL = "fault_enumeration"
RULE = (
    "case = mapping config + history (C30 alphabet, every created object is added, no expunge/savepoint) ending in a flush, + fault kind "
    "(driver error | real IntegrityError | event exception) + crash points: quick <=4 statement positions drawn per history, thorough every "
    "position x every kind. Non-trivial: the failing position is > 1 (statements already executed) and the final flush held both INSERTs "
    "and UPDATE/DELETEs; distinct = canonical JSON of (config, ops, kind, points)"
)
ASSUMPTIONS = [
    "SQLite only; same reference model and domain restrictions as C30",
    "'the same work is repeated': objects created in the failed transaction are created anew (the rolled-back ones are discarded), "
    "operations on persistent objects are re-applied to the same objects",
    "a real IntegrityError is only constructible for INSERT positions (unique uid); other positions of kind (b) use the driver error",
    "the planted conflicting row is written through the session's own DBAPI connection inside the transaction, so it vanishes with the rollback",
]

C32_CODES = [
    "hand", "hand", "ucode", "new", "new", "set", "set", "append", "append", "append", "remove", "replace", "replace", "clear",
    "setparent", "setparent", "clearparent", "tagadd", "tagadd", "tagremove", "pk", "pk", "fav",
    "delete", "delete", "delete", "merge", "flush", "commit", "commit", "rollback", "expire", "read",
]


class Injected(Exception):
    pass


@st.composite
def _cases(draw):
    cfg = draw(E.cfg_strategy("c30"))
    ops = draw(E.ops_strategy(C32_CODES, max_size=38))
    for op in ops:
        if op[0] == "new":
            op[3] = 0  # always add
        if op[0] == "add":
            op[0] = "set"
    # keep the final transaction non-trivial: no boundary / flush among the last six operations
    for op in ops[-6:]:
        if op[0] in ("commit", "rollback", "flush", "expire"):
            op[0] = "setparent"
    # the final transaction usually holds an insert plus an update/delete of an older row
    small = st.integers(0, 15)
    tail = [["new", draw(small), draw(small), 0], ["set", draw(small), draw(st.integers(0, 5)), 0],
            [draw(st.sampled_from(["delete", "setparent", "tagadd", "remove", "pk"])), draw(small), draw(small), draw(small)]]
    if draw(st.integers(0, 3)) > 0:
        ops = ops[:35] + list(draw(st.permutations(tail)))
    return {
        "cfg": cfg,
        "ops": ops,
        "kind": draw(st.sampled_from(["a", "a", "b", "b", "c"])),
        "points": draw(st.lists(st.integers(0, 63), min_size=4, max_size=4)),
    }


def _mk(case, ctx, holder):
    U = E.build_universe(E.norm_cfg(case["cfg"]))
    it = E.Interp(U, ctx, prop="C32", check_tx=True, check_reload=False)
    holder.append(it)
    return it


class _Counter:
    """records the statements of the final flush; optionally fails statement number ``fail_at``"""

    def __init__(self, engine, fail_at=None):
        from sqlalchemy import event

        self.engine = engine
        self.rows = []
        self.fail_at = fail_at
        self.active = False
        self.fired = False
        event.listen(engine, "before_cursor_execute", self._on)

    def _on(self, conn, cursor, statement, parameters, context, executemany):
        if not self.active:
            return
        n = len(self.rows)
        self.rows.append((statement, parameters))
        if self.fail_at is not None and n == self.fail_at:
            self.fired = True
            raise sqlite3.OperationalError("injected driver failure")

    def close(self):
        from sqlalchemy import event

        event.remove(self.engine, "before_cursor_execute", self._on)


class _EventFault:
    """raises from session / mapper flush events; position 0 = before_flush, 1..E = mapper events, E+1 = after_flush"""

    def __init__(self, it, fail_at=None):
        from sqlalchemy import event

        self.it = it
        self.n = 0
        self.fail_at = fail_at
        self.active = False
        self.fired = False
        self._reg = []
        for cls in set(it.U.classes.values()):
            for name in ("before_insert", "before_update", "before_delete"):
                fn = self._mapper_evt
                event.listen(cls, name, fn)
                self._reg.append((cls, name, fn))
        event.listen(it.session, "before_flush", self._before)
        event.listen(it.session, "after_flush", self._after)

    def _hit(self):
        if not self.active:
            return
        k = self.n
        self.n += 1
        if self.fail_at is not None and k == self.fail_at:
            self.fired = True
            raise Injected("injected event failure")

    def _before(self, session, ctx_, instances):
        self._hit()

    def _mapper_evt(self, mapper, connection, target):
        self._hit()

    def _after(self, session, ctx_):
        self._hit()

    def close(self):
        from sqlalchemy import event

        for cls, name, fn in self._reg:
            event.remove(cls, name, fn)
        del self._reg[:]


def _final_flush(it, counter=None, evf=None):
    """the flush under test (the same preparation in every twin)"""
    it.pre_flush()
    if counter is not None:
        counter.active = True
    if evf is not None:
        evf.active = True
    try:
        it.session.flush()
    finally:
        if counter is not None:
            counter.active = False
        if evf is not None:
            evf.active = False


def _control(case, ctx, holder):
    it = _mk(case, ctx, holder)
    counter = _Counter(it.engine)
    evf = _EventFault(it)
    try:
        it.run(case["ops"])
        with warnings.catch_warnings():
            warnings.simplefilter("ignore")
            _final_flush(it, counter, evf)
            it.model.m_flush()
            it._note_flush()
            it.check_flush_point("final flush")
            it.step(["commit", 0, 0, 0])
        final, _ = E.observe(it.observer(), it.U)
        return final, list(counter.rows), evf.n
    finally:
        counter.close()
        evf.close()
        it.close()


def _plant(it, stmt, params):
    """plant a row that makes INSERT ``stmt`` violate UNIQUE(uid); returns False if not constructible"""
    s = stmt.strip()
    if not s.upper().startswith("INSERT INTO") or " uid" not in s.replace("(", " ").replace(",", " , "):
        return False
    table = s.split()[2]
    cols = [c.strip() for c in s[s.index("(") + 1 : s.index(")")].split(",")]
    if "uid" not in cols:
        return False
    p = params[0] if params and isinstance(params[0], (tuple, list, dict)) else params
    nrow = s.upper().count("(?") if False else None
    uid = p[cols.index("uid")] if not isinstance(p, dict) else p["uid"]
    U = it.U
    dbapi = it._session_dbapi()
    cur = dbapi.cursor()
    try:
        if table == "parent" and U.cfg.get("natpk"):
            cur.execute("INSERT INTO parent (name, uid) VALUES (?, ?)", ("planted", uid))
        elif table == "child" and not U.cfg.get("fk_nullable", True):
            ref = cur.execute("SELECT name FROM parent" if U.cfg.get("natpk") else "SELECT id FROM parent").fetchone()
            if ref is None:
                return False
            cur.execute("INSERT INTO child (id, uid, parent_ref) VALUES (?, ?, ?)", (9000, uid, ref[0]))
        else:
            cur.execute(f"INSERT INTO {table} (id, uid) VALUES (?, ?)", (9000, uid))
    except sqlite3.Error:
        return False
    finally:
        cur.close()
    return True


def _crash_run(case, ctx, holder, kind, point, control_final, control_stmts):
    from sqlalchemy import text
    from sqlalchemy.exc import DBAPIError, IntegrityError, PendingRollbackError

    it = _mk(case, ctx, holder)
    if case.get("pinned"):
        it.pinned = True
        it.triggers.append("finalize/identity-map-keeps-rolled-back-pending-objects")
    counter = _Counter(it.engine, fail_at=point if kind == "a" else None)
    evf = _EventFault(it, fail_at=point if kind == "c" else None)
    label = f"kind {kind} at position {point}"
    try:
        it.run(case["ops"])
        committed_before, _ = E.observe(it.observer(), it.U)
        real_integrity = False
        with warnings.catch_warnings():
            warnings.simplefilter("ignore")
            if kind == "b":
                it.pre_flush()
                stmt, params = control_stmts[point]
                if it.session.in_transaction() or True:
                    real_integrity = _plant(it, stmt, params)
                if not real_integrity:
                    counter.fail_at = point  # not constructible here: driver error instead
            raised = None
            try:
                _final_flush(it, counter, evf)
            except Violation:
                raise
            except (DBAPIError, Injected) as e:
                raised = e
        if raised is None and not (counter.fired or evf.fired):
            # the planned position lies beyond what *this* build of the history emitted (the unit of work may order /
            # batch objects of equal rank differently between two builds): the fault was never injected, no verdict
            ctx.info("fault position not reached in the fault twin")
            return "fault-not-reached"
        if raised is None:
            if kind == "b" and real_integrity:
                # the planted row did not collide (statement order of this twin differs): not a verdict
                ctx.info("planted conflict did not trigger")
                return "skipped"
            it.viol("fault/flush-did-not-raise", f"{label}: the injected failure did not surface from Session.flush()")
        if kind == "b" and real_integrity and not isinstance(raised, IntegrityError):
            it.viol("fault/wrong-exception", f"{label}: expected IntegrityError, got {type(raised).__name__}: {raised}")
        # (1) nothing of the transaction is visible / committed
        now, _ = E.observe(it.observer(), it.U)
        if now != committed_before:
            it.viol("fault/rows-visible-after-failed-flush", f"{label}: committed rows changed by a failed flush: {E._diff(now, committed_before)[:4]}",
                    observed=now, expected=committed_before)
        # (2) documented state: needs rollback
        try:
            it.session.execute(text("SELECT 1"))
        except PendingRollbackError:
            pass
        else:
            if not (kind == "c" and point == 0):  # before_flush runs before the flush has begun anything
                it.viol("fault/no-pending-rollback-error", f"{label}: SQL on the session after a failed flush did not raise PendingRollbackError")
        # (3) rollback restores rows, states, attributes
        it.session.rollback()
        it.model.m_rollback_to(0)
        it.flush_kinds = set()
        it.flush_mappers = set()
        it.orphan_of = {}
        it.check_tx_point(f"rollback after failed flush ({label})", outer=True)
        # (4) repeat the work of the failed transaction, without the fault
        counter.fail_at = None
        evf.fail_at = None
        m = it.model
        it.reuse_slots = list(range(it.nobjs_at_boundary, len(m.objs)))
        for i in it.reuse_slots:
            m.objs[i].dead = True
        m.name_ctr = it.name_ctr_at_boundary
        start = it.boundary_at
        with warnings.catch_warnings():
            warnings.simplefilter("ignore")
            for op in case["ops"][start:]:
                it.step(op)
            it.guard(lambda: _final_flush(it))
            m.m_flush()
            it._note_flush()
            it.check_flush_point("repeated flush")
            it.step(["commit", 0, 0, 0])
        final, _ = E.observe(it.observer(), it.U)
        if final != control_final:
            it.viol("rerun/differs-from-control", f"{label}: database after repeating the work differs from the failure-free twin: {E._diff(final, control_final)[:5]}",
                    observed=final, expected=control_final)
        return "checked"
    finally:
        counter.close()
        evf.close()
        it.close()


def check(case, ctx):
    holder = []
    classes = []
    nontrivial = False
    try:
        control_final, stmts, nevents = _control(case, ctx, holder)
        S = len(stmts)
        kinds_in_flush = {s.strip().split()[0].upper() for s, _ in stmts}
        mixed = "INSERT" in kinds_in_flush and bool(kinds_in_flush & {"UPDATE", "DELETE"})
        classes.append(f"final-flush-statements={'0' if S == 0 else '1-2' if S <= 2 else '3-5' if S <= 5 else '6+'}")
        if mixed:
            classes.append("final-flush-mixed-insert-and-update/delete")
        if S == 0:
            classes.append("empty-final-flush")
            return
        tier_all = case.get("all_points") or ctx.tier == "thorough"
        kinds = ["a", "b", "c"] if tier_all else [case["kind"]]
        for kind in kinds:
            n = S if kind in "ab" else nevents  # (before_flush, mapper events..., after_flush) as counted by the control twin
            if n <= 0:
                continue
            pts = sorted(set(range(n))) if tier_all else sorted({p % n for p in case["points"]})
            dml = [i for i, (st_, _) in enumerate(stmts) if st_.strip().split()[0].upper() in ("INSERT", "UPDATE", "DELETE")]
            last_dml = max(dml) if dml else -1
            for pt in pts:
                if kind in "ab" and pt > last_dml:
                    # a SELECT emitted while the flush is being finalized (refresh of an expired primary key)
                    if not case.get("pinned"):
                        ctx.exclude("failure of a statement emitted during flush finalization (known finding: identity map keeps the rolled-back pending objects)")
                        continue
                r = _crash_run(case, ctx, holder, kind, pt, control_final, stmts)
                if r == "fault-not-reached":
                    classes.append("fault-not-reached")
                if r == "checked":
                    ctx.info("crash_points_checked")
                    classes.append(f"kind-{kind}")
                    if pt >= 1:
                        classes.append("failure-after-some-statements")
                        if mixed:
                            nontrivial = True
    finally:
        cfg = E.norm_cfg(case["cfg"])
        classes += [f"fam={cfg['fam']}", f"cascade={cfg['cascade']}"]
        ctx.note(case, nontrivial, classes=sorted(set(classes)), key=canon([case["cfg"], case["ops"], case["kind"], case["points"]]))


def subs(tier):
    return [Generated("crash_points", check, strategy=_cases(), quick=240, thorough=15000, budget_s_quick=100.0)]
