"""C34 - the identity map holds at most one object per row (per identity key).

Histories of load and mutation operations inside one Session over committed
``Thing`` rows.  The harness records every object it receives from the session
and keeps a reference model {identity key -> object}.  After every operation
the session's identity map must be exactly that mapping (injective, nothing
extra, nothing missing), every query / get / merge that yields the row for
key K must yield ``identity_map[K]`` itself, ``Session.get`` of a present,
unexpired identity must emit zero SQL, and different identity tokens must
give different objects.
"""
from __future__ import annotations

import gc

from hypothesis import strategies as st

from vf.api import Generated, HarnessError, Violation

PROPERTY = "C34"
LEVEL = "exploration"
RULE = (
    "op programs (<=40 ops) in one Session over 4 committed rows: get (populate_existing, identity_token), select (all / filtered / by pk list; populate_existing, "
    "yield_per, identity_token execution option), merge of a transient or detached copy (load True/False), merge(load=True) of an object loaded under a non-default identity token and then expunged (identity absent / present in the session), refresh, expire (whole object / one attribute), expire_all, expunge, add back, "
    "primary key change + flush, delete + flush, re-insert of a deleted pk, delete + insert of one pk in a single flush, modify without flush, commit, dropping the harness' strong reference (+gc). "
    "Non-trivial: a pk switch, an expunge/re-add, or a merge of a copy of an identity already present happens before a later query returns that row. Sub-check graph: a parent with 0-3 children (joined-eager, selectin and lazy relationships) loaded under an identity token, "
    "brought into a second Session by load / merge(load=True) / merge(load=False), then reached again through refresh, expire + access, get / select with the token and the "
    "relationships: one object per (class, pk, token), and members (re)loaded by the parent's own refresh statement carry the parent's token; "
    "distinct = canonical JSON of the program"
)
ASSUMPTIONS = [
    "one Session, SQLite in-memory; rows are only changed through this session, so the model knows which rows exist",
    "objects whose strong reference the harness dropped must disappear from the identity map only if they have no pending changes (documented weak-referencing behaviour); the harness only drops clean objects",
    "a primary key change, delete, modification or merge is not applied to a row that is also loaded under another identity token (two objects would write one row)",
    "merge(load=False) only for identities whose row exists",
    "rollback / savepoint rollback are exercised for transactions whose changes are flushed key switches, deletes and modifications of committed rows; "
    "transactions that inserted rows are not rolled back here (C33/C35), nor is the registered C33 shape 'key switch + expunge + rollback'",
]

TOKENS = [None, None, None, "t1"]


class MObj:
    __slots__ = ("key", "st", "expired", "dirty", "x")

    def __init__(self, key, st_, x):
        self.key = key  # (pk, token) or None
        self.st = st_  # persistent | detached | gone (deleted / dropped)
        self.expired = False
        self.dirty = False
        self.x = x


def check(case, ctx):
    from sqlalchemy import inspect, select
    from sqlalchemy.exc import InvalidRequestError
    from sqlalchemy.orm import make_transient_to_detached

    from checks import _orm_state as F
    from vf.sautil import Capture

    Thing = F.Thing
    eng = F.new_db(F.tables_of(Thing))
    with eng.begin() as conn:
        for i in range(1, 5):
            conn.exec_driver_sql("INSERT INTO thing (id, x) VALUES (?, ?)", (i, i * 10))
    sess = F.mk_session(eng)
    cap = Capture(eng)
    rows = {i: i * 10 for i in range(1, 5)}  # pk -> x as the database (this transaction) sees it
    pool = []  # real objects (None once dropped)
    model = []  # MObj
    idmap = {}  # (pk, token) -> pool index
    next_pk = [100]
    c_rows = dict(rows)  # rows as of the last COMMIT
    tx = {"insert": False, "switched_left": False, "switched": {}, "deleted": []}  # what the open transaction did (for rollback)
    freed = []  # primary keys that became free (rolled-back new keys, deleted / switched-away keys)
    classes = set()
    armed = set()  # keys that went through a pk switch / expunge+add / merge-of-present
    nontrivial = False

    def ident(obj):
        return next((i for i, o in enumerate(pool) if o is obj), None)

    def receive(obj, key, where, step):
        """an object came out of the session for identity `key`"""
        nonlocal nontrivial
        k = inspect(obj).key
        if k is None or (k[1][0], k[2]) != key:
            raise Violation("C34/result/wrong-identity-key", f"step {step} {where}: object for {key} carries identity key {k}")
        if key in idmap:
            if obj is not pool[idmap[key]]:
                raise Violation(f"C34/{where}/second-object-for-key", f"step {step} {where}: row {key} came back as a new object although the session already holds one for that key",
                                observed=repr(obj), expected=f"pool[{idmap[key]}]")
            if key in armed:
                nontrivial = True
            return idmap[key]
        i = ident(obj)
        if i is not None:
            raise Violation(f"C34/{where}/object-under-two-keys", f"step {step} {where}: object {i} (model key {model[i].key}) returned for key {key}")
        pool.append(obj)
        model.append(MObj(key, "persistent", rows.get(key[0])))
        idmap[key] = len(pool) - 1
        if key in armed:
            nontrivial = True
        return len(pool) - 1

    def flush_model():
        for m in model:
            if m.st == "persistent" and m.dirty:
                rows[m.key[0]] = m.x
                m.dirty = False

    def verify(step, op):
        real = {}
        for k, o in sess.identity_map.items():
            real[(k[1][0], k[2])] = o
        exp = {k: pool[i] for k, i in idmap.items()}
        if set(real) != set(exp):
            raise Violation(f"C34/identity_map/keys/{op}", f"step {step} {op}: identity_map keys {sorted(real, key=repr)}, model {sorted(exp, key=repr)}",
                            observed=sorted(real, key=repr), expected=sorted(exp, key=repr))
        for k in exp:
            if real[k] is not exp[k]:
                raise Violation(f"C34/identity_map/object/{op}", f"step {step} {op}: identity_map[{k}] is not the object the harness received for that key")
        seen = {}
        for i, (o, m) in enumerate(zip(pool, model)):
            if o is None or m.st != "persistent":
                if o is not None and sess.identity_map.contains_state(inspect(o)):
                    raise Violation(f"C34/identity_map/stale-member/{op}", f"step {step} {op}: object {i} ({m.st}) is still in the identity map")
                continue
            k = inspect(o).key
            kk = (k[1][0], k[2])
            if kk in seen:
                raise Violation(f"C34/identity_map/not-injective/{op}", f"step {step} {op}: objects {seen[kk]} and {i} both carry key {kk}")
            seen[kk] = i
            if kk != m.key:
                raise Violation(f"C34/identity_key/{op}", f"step {step} {op}: object {i} carries key {kk}, model {m.key}")
            if sess.identity_map.get(k) is not o:
                raise Violation(f"C34/identity_map/object/{op}", f"step {step} {op}: identity_map[{kk}] is not object {i}")

    def pick(a, pred):
        cand = [i for i, m in enumerate(model) if pool[i] is not None and pred(m)]
        return cand[a % len(cand)] if cand else None

    def twin(m):
        return any(k[0] == m.key[0] and k != m.key for k in idmap)

    try:
        for step, opd in enumerate(case["ops"]):
            op, a, b, c = opd[0], opd[1], opd[2], opd[3]
            token = TOKENS[c % 4]
            if op == "get":
                pks = sorted(set(rows) | {k[0] for k in idmap} | {1, 2, 3, 4} | set(freed[-3:]))
                pk = pks[a % len(pks)]
                if a >= 100 and freed:
                    pk = freed[-1 - (a - 100) % min(len(freed), 2)]  # probe one of the most recently freed keys
                key = (pk, token)
                if pk in freed:
                    classes.add("get-freed-key")
                pe = b % 5 == 0
                present = key in idmap
                unexp = present and not model[idmap[key]].expired
                cap.clear()
                got = sess.get(Thing, pk, identity_token=token, populate_existing=pe or None)
                n = len(cap.rows)
                if not present or pe or not unexp:
                    flush_model()  # the SELECT autoflushes
                if present and unexp and not pe:
                    classes.add("get-present-unexpired")
                    if n != 0:
                        raise Violation("C34/get/sql-for-present-identity", f"step {step}: get({pk}, token={token}) of a present, unexpired object emitted {n} statement(s): {[r[0] for r in cap.rows]}",
                                        observed=n, expected=0)
                if pk in rows:
                    if got is None:
                        raise Violation("C34/get/missing", f"step {step}: get({pk}) returned None but the row exists")
                    i = receive(got, key, "get", step)
                    model[i].expired = False
                    if token is not None:
                        classes.add("identity_token")
                        other = idmap.get((pk, None))
                        if other is not None and pool[other] is got:
                            raise Violation("C34/identity_token/shared-object", f"step {step}: get({pk}, identity_token={token!r}) returned the object of the default token")
                else:
                    if got is not None:
                        raise Violation("C34/get/phantom", f"step {step}: get({pk}) returned {got!r} for a row that does not exist")
                del got
            elif op == "select":
                sess.flush()
                flush_model()
                mode = a % 4
                stmt = select(Thing)
                if mode == 1:
                    thr = (b % 6) * 10
                    stmt = stmt.where(Thing.x >= thr)
                    want = {pk for pk, x in rows.items() if x is not None and x >= thr}
                elif mode == 2:
                    ids = sorted(rows)[: (b % 3) + 1]
                    stmt = stmt.where(Thing.id.in_(ids))
                    want = set(ids)
                else:
                    want = set(rows)
                opts = {}
                pe = c % 5 == 0
                if pe:
                    opts["populate_existing"] = True
                    classes.add("populate_existing")
                yp = [0, 0, 1, 2][b % 4]
                if yp:
                    opts["yield_per"] = yp
                    classes.add("yield_per")
                if token is not None:
                    opts["identity_token"] = token
                    classes.add("identity_token")
                if opts:
                    stmt = stmt.execution_options(**opts)
                res = sess.execute(stmt).scalars()
                objs = []
                if yp:
                    for part in res.partitions():
                        objs.extend(part)
                else:
                    objs = res.all()
                got_ids = []
                for o in objs:
                    k = inspect(o).key
                    got_ids.append(k[1][0])
                    i = receive(o, (k[1][0], token), "select", step)
                    model[i].expired = False
                if sorted(got_ids) != sorted(want):
                    raise Violation("C34/select/rows", f"step {step}: select returned pks {sorted(got_ids)}, rows are {sorted(want)}", observed=sorted(got_ids), expected=sorted(want))
                del objs, res
                o = part = None  # loop variables would keep the last result object alive
            elif op == "merge":
                sess.flush()
                flush_model()
                pks = sorted(set(rows) | {k[0] for k in idmap} | {1, 2, 3, 4})
                pk = pks[a % len(pks)]
                key = (pk, None)
                if any(k[0] == pk and k[1] is not None for k in idmap):
                    ctx.info("skipped:merge-into-row-with-token-twin")
                    continue
                xval = (b % 7) * 10 + 5
                load = c % 3 != 0
                detached = c % 2 == 0
                if not load and pk not in rows:
                    load = True
                copy = Thing(id=pk, x=xval)
                if detached or not load:
                    make_transient_to_detached(copy)
                if key in idmap:
                    armed.add(key)
                    classes.add("merge-of-present")
                got = sess.merge(copy, load=load)
                if got is copy:
                    raise Violation("C34/merge/returned-argument", f"step {step}: merge returned the given instance")
                if key in idmap or pk in rows:
                    i = receive(got, key, "merge", step)
                    m = model[i]
                    m.expired = False
                    if load:
                        m.x = xval
                        m.dirty = True  # any attribute set marks the state modified (strongly referenced) until the next flush
                    else:
                        m.x = xval  # load=False: state copied as committed; row keeps its value until a later change
                        m.dirty = False
                    if not load:
                        # the value in the row is not touched by this merge
                        pass
                else:
                    # no such row: pending copy, INSERTed by the flush below
                    if inspect(got).key is not None:
                        raise Violation("C34/merge/pending-has-key", f"step {step}: merge of unknown pk {pk} returned an object with identity")
                    sess.flush()
                    rows[pk] = xval
                    tx["insert"] = True
                    i = receive(got, key, "merge", step)
                if not load:
                    sess.expire(got)
                    model[i].expired = True
                    model[i].x = rows[pk]
                    model[i].dirty = False
                del got, copy
            elif op == "merge_token":
                # an object loaded under a non-default identity token, detached, then merged back with load=True
                sess.flush()
                flush_model()
                live = sorted(rows)
                if not live:
                    continue
                pk = live[a % len(live)]
                tok = ["t1", "t2"][c % 2]
                key = (pk, tok)
                via_select = b % 2 == 0
                # 1. obtain the source under the token (get or select with the execution option) and detach it
                if via_select:
                    src = sess.execute(select(Thing).where(Thing.id == pk).execution_options(identity_token=tok)).scalars().one()
                else:
                    src = sess.get(Thing, pk, identity_token=tok)
                si = receive(src, key, "merge_token-load", step)
                model[si].expired = False
                if model[si].dirty:
                    sess.flush()
                    flush_model()
                sess.expunge(src)
                del idmap[key]
                model[si].st = "detached"
                if si in tx["switched"]:
                    tx["switched_left"] = True
                present = b % 3 == 0
                if present:
                    # control: the session holds that identity again before the merge
                    held = sess.get(Thing, pk, identity_token=tok)
                    hi = receive(held, key, "merge_token-reload", step)
                    if held is src:
                        raise Violation("C34/merge_token/expunged-object-returned", f"step {step}: get returned the expunged object")
                    del held
                    classes.add("merge-token-present")
                else:
                    classes.add("merge-token-absent")
                armed.add(key)
                # 2. merge: the result must live under the SOURCE's full key (class, pk, token)
                merged = sess.merge(src, load=True)
                if merged is src:
                    raise Violation("C34/merge_token/returned-argument", f"step {step}: merge returned the detached source")
                mk = inspect(merged).key
                if mk is None or (mk[1][0], mk[2]) != key:
                    raise Violation("C34/merge/identity-token-lost", f"step {step}: merge(load=True) of a detached object with identity key {inspect(src).key} produced an object keyed {mk}",
                                    observed=repr(mk), expected=repr(inspect(src).key))
                mi = receive(merged, key, "merge_token", step)
                if present and mi != hi:
                    raise Violation("C34/merge_token/second-object-for-key", f"step {step}: merge did not return the object already held for {key}")
                model[mi].expired = False
                model[mi].dirty = True  # attribute copy marks it modified
                model[mi].x = rows[pk]
                # 3. get under the token: same object, zero SQL; a query under the token returns it too
                cap.clear()
                again = sess.get(Thing, pk, identity_token=tok)
                n = len(cap.rows)
                if again is not merged:
                    raise Violation("C34/merge_token/get-after-merge", f"step {step}: get({pk}, identity_token={tok!r}) after merge returned another object")
                if n != 0:
                    raise Violation("C34/get/sql-for-present-identity", f"step {step}: get({pk}, identity_token={tok!r}) right after merge emitted {n} statement(s)", observed=n, expected=0)
                q = sess.execute(select(Thing).where(Thing.id == pk).execution_options(identity_token=tok)).scalars().all()
                flush_model()
                if len(q) != 1 or q[0] is not merged:
                    raise Violation("C34/merge_token/select-after-merge", f"step {step}: select under identity_token={tok!r} did not return the merged object")
                del src, merged, again, q
            elif op in ("refresh", "expire", "expire_attr", "modify", "modify_flush", "pk_change", "delete", "row_switch", "expunge", "drop"):
                if op in ("pk_change", "delete", "row_switch", "modify", "modify_flush"):
                    i = pick(a, lambda m: m.st == "persistent" and not twin(m))
                elif op == "drop":
                    i = pick(a, lambda m: m.st == "persistent" and not m.dirty)
                else:
                    i = pick(a, lambda m: m.st == "persistent")
                if i is None:
                    continue
                m, o = model[i], pool[i]
                if op == "refresh":
                    sess.refresh(o)  # expires this object first (its own pending change is discarded), then the reload autoflushes the others
                    m.dirty = False
                    flush_model()
                    m.expired = False
                    m.x = rows[m.key[0]]
                elif op == "expire":
                    if m.dirty:
                        sess.flush()
                        flush_model()
                    sess.expire(o)
                    m.expired = True
                elif op == "expire_attr":
                    if m.dirty:
                        sess.flush()
                        flush_model()
                    sess.expire(o, ["x"])  # partially expired: Session.get still answers from the identity map without SQL
                elif op in ("modify", "modify_flush"):
                    m.x = (b % 7) * 10 + 1
                    o.x = m.x
                    m.dirty = True
                    if op == "modify_flush":
                        sess.flush()
                        flush_model()
                elif op == "pk_change":
                    next_pk[0] += 1
                    new = next_pk[0]
                    old_key = m.key
                    o.id = new
                    sess.flush()
                    flush_model()
                    x = rows.pop(old_key[0])
                    rows[new] = x
                    del idmap[old_key]
                    m.key = (new, old_key[1])
                    idmap[m.key] = i
                    tx["switched"].setdefault(i, old_key)
                    freed.append(old_key[0])
                    armed.add(m.key)
                    classes.add("pk-switch")
                elif op == "delete":
                    sess.delete(o)
                    sess.flush()
                    flush_model()
                    rows.pop(m.key[0])
                    del idmap[m.key]
                    m.st = "gone"
                    tx["deleted"].append(i)
                    freed.append(m.key[0])
                    classes.add("delete")
                elif op == "row_switch":
                    # delete + insert of the same primary key inside ONE flush (the unit of work turns it into an UPDATE)
                    pk = m.key[0]
                    if m.key[1] is not None:
                        del o
                        continue
                    n_ = Thing(id=pk, x=(b % 7) * 10 + 3)
                    sess.delete(o)
                    sess.add(n_)
                    sess.flush()
                    flush_model()
                    rows[pk] = n_.x
                    tx["insert"] = True
                    del idmap[m.key]
                    m.st = "gone"
                    pool.append(n_)
                    model.append(MObj((pk, None), "persistent", n_.x))
                    idmap[(pk, None)] = len(pool) - 1
                    armed.add((pk, None))
                    classes.add("row-switch")
                    del n_
                elif op == "expunge":
                    if m.dirty:
                        sess.flush()
                        flush_model()
                    sess.expunge(o)
                    del idmap[m.key]
                    m.st = "detached"
                    if i in tx["switched"]:
                        tx["switched_left"] = True
                elif op == "drop":
                    tx["switched"].pop(i, None)  # the state is garbage collected, the weak snapshot entry goes with it
                    del idmap[m.key]
                    m.st = "gone"
                    pool[i] = None
                    classes.add("drop-strong-ref")
                del o
                if op == "drop":
                    gc.collect()
            elif op == "add_back":
                i = pick(a, lambda m: m.st == "detached")
                if i is None:
                    continue
                m, o = model[i], pool[i]
                if m.key[0] not in rows:
                    continue  # its row is gone: would be a persistent object without a row
                if m.key in idmap:
                    classes.add("add-back-conflict")
                    try:
                        sess.add(o)
                    except InvalidRequestError:
                        pass
                    else:
                        raise Violation("C34/add/second-object-accepted", f"step {step}: Session.add() accepted detached object {i} although identity {m.key} is held by object {idmap[m.key]}")
                else:
                    sess.add(o)
                    idmap[m.key] = i
                    m.st = "persistent"
                    armed.add(m.key)
                    classes.add("expunge-readd")
                del o
            elif op == "reinsert":
                gone = sorted({1, 2, 3, 4} - set(rows) - {k[0] for k in idmap})
                if not gone:
                    continue
                pk = gone[a % len(gone)]
                o = Thing(id=pk, x=(b % 7) * 10 + 2)
                sess.add(o)
                sess.flush()
                rows[pk] = o.x
                tx["insert"] = True
                pool.append(o)
                model.append(MObj((pk, None), "persistent", o.x))
                idmap[(pk, None)] = len(pool) - 1
                armed.add((pk, None))
                classes.add("reinsert-deleted-pk")
                del o
            elif op == "expire_all":
                sess.flush()
                flush_model()
                sess.expire_all()
                for m in model:
                    if m.st == "persistent":
                        m.expired = True
            elif op == "commit":
                sess.commit()
                flush_model()
                for m in model:
                    if m.st == "persistent":
                        m.expired = True
                c_rows = dict(rows)
                tx = {"insert": False, "switched_left": False, "switched": {}, "deleted": []}
            elif op == "rollback":
                if tx["insert"]:
                    ctx.info("skipped:rollback-after-insert-in-transaction")  # rows created in the transaction (C33/C35 territory)
                    continue
                if tx["switched_left"]:
                    ctx.exclude("rollback after a key-switched object was expunged (known finding C33/rollback/expunged-key-switched-object-back-in-identity-map)")
                    continue
                restored = set(tx["switched"]) | set(tx["deleted"])
                if any(m.st == "persistent" and j not in restored and m.key[0] not in c_rows for j, m in enumerate(model) if pool[j] is not None):
                    ctx.info("skipped:rollback-would-orphan-object-loaded-under-new-key")
                    continue
                had_switch = bool(tx["switched"])
                sess.rollback()
                rows.clear()
                rows.update(c_rows)
                for j, old_key in tx["switched"].items():
                    m = model[j]
                    if m.st == "persistent":
                        idmap.pop(m.key, None)
                    freed.append(m.key[0])
                    m.key = old_key
                    armed.add(old_key)
                for j in tx["deleted"]:
                    model[j].st = "persistent"
                for j, m in enumerate(model):
                    if m.st == "persistent" and pool[j] is not None:
                        idmap[m.key] = j
                        m.expired, m.dirty, m.x = True, False, rows[m.key[0]]
                freed[:] = [k for k in freed if k not in rows]
                if had_switch:
                    classes.add("rollback-after-pk-switch")
                if tx["deleted"]:
                    classes.add("rollback-after-delete")
                tx = {"insert": False, "switched_left": False, "switched": {}, "deleted": []}
            elif op == "sp_switch_rollback":
                i = pick(a, lambda m: m.st == "persistent" and not twin(m))
                if i is None:
                    continue
                m, o = model[i], pool[i]
                next_pk[0] += 1
                new = next_pk[0]
                sp = sess.begin_nested()  # flushes whatever is pending
                flush_model()
                o.id = new
                sess.flush()
                sp.rollback()
                m.expired, m.dirty = True, False
                freed.append(new)
                armed.add(m.key)
                classes.add("savepoint-pk-switch-rollback")
                del o, sp
            elif op == "oob_insert":
                cand = sorted({k for k in freed if k not in rows and not any(kk[0] == k for kk in idmap)})
                if not cand:
                    continue
                sess.flush()
                flush_model()
                pk = cand[a % len(cand)]
                xv = (b % 7) * 10 + 4
                sess.connection().exec_driver_sql("INSERT INTO thing (id, x) VALUES (?, ?)", (pk, xv))  # not through the unit of work
                rows[pk] = xv
                tx["insert"] = True
                classes.add("out-of-band-insert-of-freed-key")
            else:
                raise HarnessError(op)
            classes.add(op)
            verify(step, op)
    finally:
        ctx.note(case, nontrivial, classes=classes | ({"nontrivial"} if nontrivial else set()))
        cap.close()
        sess.close()
        eng.dispose()


_OPS = (["get"] * 6 + ["select"] * 6 + ["merge"] * 4 + ["merge_token"] * 3 + ["refresh", "expire", "expire", "expire_attr", "expire_attr", "modify", "modify_flush", "pk_change", "pk_change", "delete", "expunge", "expunge",
        "add_back", "add_back", "add_back", "reinsert", "row_switch", "drop", "expire_all", "commit", "commit", "rollback", "rollback", "rollback",
        "sp_switch_rollback", "sp_switch_rollback", "oob_insert", "oob_insert"])


@st.composite
def _programs(draw):
    raw = draw(st.lists(st.tuples(st.sampled_from(_OPS + ["switch_rollback"] * 4), st.integers(0, 9), st.integers(0, 20), st.integers(0, 11)), min_size=3, max_size=36))
    ops = []
    for o in raw:
        if o[0] == "switch_rollback":
            # macro: flushed key switch, rollback, then look both the restored and the rolled-back key up again
            ops.append(["pk_change", o[1], o[2], o[3]])
            if o[2] % 3 == 0:
                ops.append(["get", 100, 1, 0])
            ops.append(["rollback", 0, 0, 0])
            ops.append(["get", 100, 1, 0])
            ops.append(["get", 101, 1, 0])
            if o[2] % 2:
                ops.append(["oob_insert", o[1], o[2], 0])
            ops.append(["select", 0, 0, 0])
        else:
            ops.append(list(o))
    return {"ops": ops[:44]}

# --------------------------------------------------------------------------- object graphs under identity tokens
_G = {}


def _graph_family():
    if not _G:
        from sqlalchemy import Column, ForeignKey, Integer
        from sqlalchemy.orm import declarative_base, relationship

        Base = declarative_base()

        class GParent(Base):
            __tablename__ = "gparent"
            id = Column(Integer, primary_key=True)
            x = Column(Integer)
            kids_joined = relationship("GChild", lazy="joined", order_by="GChild.id", viewonly=True)
            kids_selectin = relationship("GChild", lazy="selectin", order_by="GChild.id", viewonly=True)
            kids = relationship("GChild", lazy="select", order_by="GChild.id", back_populates="parent")

        class GChild(Base):
            __tablename__ = "gchild"
            id = Column(Integer, primary_key=True)
            parent_id = Column(ForeignKey("gparent.id"))
            y = Column(Integer)
            parent = relationship(GParent, back_populates="kids")

        _G.update(Base=Base, P=GParent, C=GChild)
    return _G


def check_graph(case, ctx):
    """A parent with 0-3 children is loaded under an identity token, carried into a second Session (merge with load True / False, or
    loaded there directly), and then reached again through several paths (refresh, expire + access, eager and lazy relationship loads,
    get and select with the token).  Every path must hand out the session's one object per (class, primary key, token)."""
    from sqlalchemy import inspect, select
    from sqlalchemy.orm import Session

    from vf.sautil import mem_engine

    fam = _graph_family()
    P, C = fam["P"], fam["C"]
    tok = case["token"]
    n = case["n_kids"]
    eng = mem_engine()
    fam["Base"].metadata.create_all(eng)
    with eng.begin() as conn:
        conn.exec_driver_sql("INSERT INTO gparent (id, x) VALUES (1, 10)")
        for i in range(n):
            conn.exec_driver_sql("INSERT INTO gchild (id, parent_id, y) VALUES (?, 1, ?)", (i + 1, i))
    opts = {"identity_token": tok} if tok is not None else {}
    s1 = Session(eng)
    s2 = Session(eng)
    classes = {f"token={tok}", f"kids={n}", "enter=" + case["enter"]}
    try:
        if case["enter"] == "load":
            p = s2.scalars(select(P).execution_options(**opts)).unique().one()
        else:
            src = s1.scalars(select(P).execution_options(**opts)).unique().one()
            _ = [k.y for k in src.kids]
            s1.close()  # detached graph: parent, kids (cascade merge), kids_joined / kids_selectin (viewonly: not merged)
            p = s2.merge(src, load=case["enter"] == "merge_load")
        held = {}  # (cls name, pk) -> the first object seen for it

        def see(obj, via, step, same_token=False):
            # (a relationship loaded by a statement of its own - lazy or selectin - carries no token in a plain Session: only objects
            # that come out of a statement executed with the token, or of the refresh of an object keyed with it, must carry it)
            key = inspect(obj).key
            if key is None or (same_token and key[2] != tok):
                raise Violation("C34/graph/identity-token", f"step {step} via {via}: object {obj!r} has identity key {key!r}, expected token {tok!r}")
            k = (type(obj).__name__, key[1], key[2])
            if k in held and held[k] is not obj:
                raise Violation("C34/graph/second-object-for-identity", f"step {step} via {via}: {k} under token {tok!r} reached as a second object "
                                f"(identity map holds {'the first' if s2.identity_map.get(key) is held[k] else 'the second' if s2.identity_map.get(key) is obj else 'neither'})")
            held.setdefault(k, obj)
            if s2.identity_map.get(key) is not obj:
                raise Violation("C34/graph/not-the-identity-map-object", f"step {step} via {via}: {k} is not the object the identity map holds for {key!r}")

        see(p, "enter", -1, True)
        for step, op in enumerate(case["ops"]):
            classes.add(op)
            if op == "refresh":
                s2.refresh(p)
            elif op == "refresh_attrs":
                s2.refresh(p, ["x", "kids_joined"])
            elif op == "expire_access":
                s2.expire(p)
                _ = p.x
            elif op == "expire_all":
                s2.expire_all()
            elif op == "get_kids":
                for i in range(n):
                    see(s2.get(C, i + 1, identity_token=tok), "get(child)", step, True)
            elif op == "get_parent":
                see(s2.get(P, 1, identity_token=tok), "get(parent)", step, True)
            elif op == "select_kids":
                for k in s2.scalars(select(C).order_by(C.id).execution_options(**opts)):
                    see(k, "select(child)", step, True)
            elif op == "select_parent_pe":
                see(s2.scalars(select(P).execution_options(populate_existing=True, **opts)).unique().one(), "select(parent, populate_existing)", step, True)
            if op in ("refresh", "refresh_attrs", "expire_access", "select_parent_pe") and "kids_joined" in inspect(p).dict:
                # the joined-eager collection was (re)loaded by the very statement that refreshed the parent: its members are looked up
                # under the parent's token, i.e. they are the objects get(child, identity_token=token) hands out
                for k in inspect(p).dict["kids_joined"]:
                    see(k, "joined eager load during " + op, step, True)
            for attr in case["read"]:
                for k in getattr(p, attr):
                    see(k, f"parent.{attr}", step)
                    if k.parent is not None:
                        see(k.parent, f"parent.{attr}[].parent", step)
        ctx.note(case, tok is not None and n > 0 and case["enter"] != "load" and any(o.startswith(("refresh", "expire")) for o in case["ops"]), classes=sorted(classes))
    finally:
        s1.close()
        s2.close()
        eng.dispose()


@st.composite
def _graph_programs(draw):
    return {
        "token": draw(st.sampled_from([None, "t1", "t1", "t2"])),
        "n_kids": draw(st.integers(0, 3)),
        "enter": draw(st.sampled_from(["load", "merge_load", "merge_noload", "merge_noload"])),
        "ops": draw(st.lists(st.sampled_from(["refresh", "refresh", "refresh_attrs", "expire_access", "expire_all", "get_kids", "get_parent", "select_kids", "select_parent_pe"]), min_size=1, max_size=6)),
        "read": draw(st.lists(st.sampled_from(["kids", "kids_joined", "kids_selectin"]), min_size=1, max_size=3, unique=True)),
    }


def subs(tier):
    return [
        Generated("identity", check, strategy=_programs(), quick=2000, thorough=50000),
        Generated("graph", check_graph, strategy=_graph_programs(), quick=800, thorough=20000),
    ]
