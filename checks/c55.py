"""C55 - compiled and pure-Python implementations are interchangeable (E-DIFF).

The check process runs the pure-Python ``*_cy.py`` modules of the working tree.
One persistent child interpreter per shard runs the prebuilt compiled
extensions (``checks/_c55_child.py``).  Every generated op program is executed
by the *same* interpreter code (``checks/_c55_interp.py``) on both sides and the
canonical traces are compared entry by entry: return values by (type name,
canonical repr), exception type, observable side effects.
"""
from __future__ import annotations

import json
import os
import select
import subprocess
import sys

from hypothesis import strategies as st

from vf.api import Generated, HarnessError, Violation

from . import _c55_interp as interp

PROPERTY = "C55"
LEVEL = "exploration"
RULE = (
    "op programs (<=14 ops) per dual-implemented module family - coll (OrderedSet/unique_list), iset (IdentitySet), idict (immutabledict/"
    "ImmutableDictBase/ReadOnlyContainer), row (BaseRow/Row/RowMapping construction, indexing, slicing, attribute/key access, comparison, hashing, "
    "pickling, _mapping, _filter_on_values), proc (processors over valid+malformed ISO strings and every Python value kind), eutil "
    "(_distill_params_20/_distill_raw_params/tuplegetter over every argument shape), anon (anon_map/prefix_anon_map key sequences), result "
    "(IteratorResult fetch programs through _result_cy over source rows delivered as tuple / list / tuple subclass, with and without active result processors; "
    "the source rows are observed after the program and re-read through a second Result: neither build may write to them) - each executed in the pure build (this process) and in the compiled build (persistent child) "
    "by identical interpreter code; xpickle: Row/RowMapping/list of Row/immutabledict pickled by each build (protocol 2-5) and loaded by the other. Non-trivial: the program contains an op that reaches an explicit cython.compiled branch or a typed-argument "
    "boundary (see _NT_OPS per family); distinct = canonical JSON of the program"
)
ASSUMPTIONS = [
    "the compiled side is the PREBUILT extension of the pinned commit (no Cython in the sandbox): a later legitimate behavioural change of a *_cy.py file is reported as stale binaries",
    "exception messages are compared only for sqlalchemy.exc.* classes and messages the module constructs itself",
    "documented Cython typing artefacts are normalised (listed with reasons in _artefact(); each normalised program is truncated at the artefact and counted in evidence notes)",
    "IdentitySet iteration order is compared (both builds are dict-backed; the source says 'the code assumes this class is ordered')",
    "private cdef attributes (_list, _members, type_, format_, _index) are not observed: they are not part of the Python-visible surface of the compiled classes",
    "a crash / hang / protocol error of the child interpreter is a harness error (exit 2), never a violation",
    "known findings excluded by construction: C54's OrderedSet.symmetric_difference_update duplicates (same in both builds), tuple-subclass row data, copy/pickle of ImmutableDictBase subclasses, pure->compiled OrderedSet pickles",
]

VERIF = os.path.dirname(os.path.dirname(os.path.abspath(__file__)))
PY = "/venv/bin/python"


# ------------------------------------------------------------------ child process management
def _pdeathsig():
    # kernel-enforced: the child gets SIGKILL if the shard process dies for any reason
    try:
        import ctypes
        import signal

        ctypes.CDLL("libc.so.6", use_errno=True).prctl(1, signal.SIGKILL, 0, 0, 0)  # PR_SET_PDEATHSIG
    except Exception:
        pass


class _Child:
    TIMEOUT = 90.0  # per request
    START_TIMEOUT = 600.0  # interpreter start + sqlalchemy import on a heavily loaded machine

    def __init__(self):
        import tempfile

        env = dict(os.environ)
        env.update(VERIF_BUILD="compiled", PYTHONPATH=VERIF, PYTHONHASHSEED="0", PYTHONDONTWRITEBYTECODE="1")
        base = "/dev/shm" if os.path.isdir("/dev/shm") and os.access("/dev/shm", os.W_OK) else tempfile.gettempdir()
        fd, self.errpath = tempfile.mkstemp(prefix="vf_C55_child_", suffix=".stderr", dir=base)  # removed again in stop()
        self.errf = os.fdopen(fd, "wb")
        self.dead = None
        self.p = subprocess.Popen([PY, "-u", "-m", "checks._c55_child"], stdin=subprocess.PIPE, stdout=subprocess.PIPE, stderr=self.errf,
                                  env=env, cwd=VERIF, preexec_fn=_pdeathsig)
        hello = self._read(self.START_TIMEOUT)
        if "error" in hello:
            self._fail("child failed to start: " + hello["error"])
        if hello.get("hello") != "compiled" or not all(hello["compiled"].values()):
            self._fail(f"child is not running the compiled extensions: {hello}")
        self.info = hello["compiled"]

    def _stderr_tail(self):
        if getattr(self, "_tail", None) is not None:
            return self._tail
        try:
            return open(self.errpath, "rb").read()[-1500:].decode("utf8", "replace")
        except OSError:
            return ""

    def _fail(self, msg):
        self.dead = msg
        self.stop()
        raise HarnessError(f"C55 child interpreter: {msg}\n--- child stderr ---\n{self._stderr_tail()}")  # a harness error (exit 2), never a violation

    def _read(self, timeout=None):
        timeout = timeout or self.TIMEOUT
        r, _, _ = select.select([self.p.stdout], [], [], timeout)
        if not r:
            self._fail(f"no answer within {timeout}s (hang)")
        line = self.p.stdout.readline()
        if not line:
            self._fail(f"exited unexpectedly (rc={self.p.poll()})")
        try:
            return json.loads(line)
        except ValueError:
            self._fail(f"protocol error: {line[:200]!r}")

    def run(self, fam, case):
        if self.dead:
            raise HarnessError(f"C55 child interpreter is gone: {self.dead}")
        try:
            self.p.stdin.write((json.dumps({"fam": fam, "case": case}) + "\n").encode())
            self.p.stdin.flush()
        except (BrokenPipeError, OSError) as e:
            self._fail(f"pipe closed ({e}); last program {fam}: {json.dumps(case)[:800]}")
        resp = self._read()
        if "error" in resp:
            raise HarnessError(f"C55 child harness error on {fam} program {json.dumps(case)[:800]}:\n{resp['error']}")
        return resp["trace"]

    def stop(self):
        p = self.p
        if p is None:
            return
        self.p = None
        self._tail = self._stderr_tail()
        try:
            try:
                p.stdin.close()
            except OSError:
                pass
            try:
                p.wait(timeout=2)
            except subprocess.TimeoutExpired:
                p.kill()
                p.wait(timeout=5)
        finally:
            for f in (p.stdout, self.errf):
                try:
                    f.close()
                except OSError:
                    pass
            try:
                os.unlink(self.errpath)
            except OSError:
                pass


_EARLY = {}


def _prestart():
    """Start the shard's child while the runner is still setting up (called from subs()): interpreter start + sqlalchemy import of the
    child then do not eat the first sub-check's time budget.  The child is adopted (and its shutdown chained to ctx.cleanup) by the
    first _child_for(ctx); if no case is ever run it exits by itself on stdin EOF / PR_SET_PDEATHSIG when this process ends."""
    if "child" in _EARLY or "error" in _EARLY:
        return
    try:
        _EARLY["child"] = _Child()
    except HarnessError as e:
        _EARLY["error"] = str(e)


def _child_for(ctx):
    """one persistent compiled-build child per shard.  The runner calls
    ``ctx.cleanup()`` in the ``finally`` of every shard (and of every replay);
    the child's stop() is chained in front of it, so the child is killed at the
    end of the shard whatever happened (plus PR_SET_PDEATHSIG / stdin-EOF as
    safety nets should the shard process itself be killed)."""
    err = getattr(ctx, "_c55_child_error", None)
    if err is not None:
        raise HarnessError(err)  # a failed start stays failed for the whole shard (deterministic harness error, no retry)
    ch = getattr(ctx, "_c55_child", None)
    if ch is None:
        if interp.build_info() != {k: False for k in interp.build_info()}:
            raise HarnessError(f"check process must run the pure-Python build, got {interp.build_info()}")
        try:
            if "error" in _EARLY:
                raise HarnessError(_EARLY.pop("error"))
            ch = _EARLY.pop("child", None) or _Child()
        except HarnessError as e:
            ctx._c55_child_error = str(e)
            raise
        ctx._c55_child = ch
        orig_cleanup = ctx.cleanup

        def cleanup():
            try:
                ch.stop()
            finally:
                orig_cleanup()

        ctx.cleanup = cleanup
    return ch


# ------------------------------------------------------------------ trace comparison
# Messages are compared only when both builds construct them (sqlalchemy.exc classes, or text written in the *_cy module itself).
_OWN_MESSAGES = ("pop from an empty set", "can't set attribute", "can't delete attribute", "object is immutable", "set objects are unhashable",
                 "proc boom", "gen boom")


def _msg_comparable(entry):
    return entry[4].startswith("sqlalchemy") or any(m in entry[3] for m in _OWN_MESSAGES)


def _artefact(fam, op, pe, ce, case, opd):
    """Reason string when the pure/compiled difference of one trace entry is a
    documented Cython typing artefact, else None.  pe / ce = pure / compiled
    trace entries ([label, kind, ...])."""
    cexc = ce[2] if ce[1] == "exc" else None
    cmsg = ce[3] if ce[1] == "exc" else ""
    # A1: `pos: cython.Py_ssize_t` / `key: cython.Py_ssize_t` (OrderedSet.insert / __getitem__): the compiled build converts the
    # argument to a C integer at call time, so a non-integer / out-of-range index raises there even when the pure build never
    # uses the value (element already present) or list accepts it (slice).  Wrong-typed argument outside the annotated domain.
    if fam == "coll" and op in ("insert_b", "getitem_b") and cexc in ("TypeError", "OverflowError") and any(
            m in cmsg for m in ("cannot be interpreted as an integer", "too large to convert", "an integer is required", "cannot fit")):
        return "A1:Py_ssize_t-typed index argument rejected at call time"
    # A2: BaseRow(parent, processors, key_to_index, data) documents `data: Sequence[Any]`.  With processors the compiled
    # _apply_processors uses len(data)/data[i]; the pure one copies list(data) first, so it also accepts a non-Sequence iterable
    # (generator, dict keys view).  Non-Sequence data is outside the annotated domain.
    if fam == "row" and cexc == "TypeError" and ("has no len()" in cmsg or "is not subscriptable" in cmsg) and any(
            r["dk"] in ("gen", "dictkeys", "none") for r in case["rows"]):
        return "A2:non-Sequence row data with processors"
    # A3: BaseRow._set_attrs(data: Tuple) - __setstate__/rowproxy_reconstructor with a `_data` that is a list/str/None: __getstate__
    # only ever produces the row's own tuple, so a non-tuple `_data` is a hand-made, wrong-typed state.  (tuple SUBCLASSES are a
    # different matter: see _root_cause.)
    if fam == "row" and op in ("setstate", "reconstructor") and cexc == "TypeError" and (
            "Expected tuple, got" in cmsg and "MyTuple" not in cmsg or "cannot pass None into a C function argument" in cmsg):
        return "A3:non-tuple _data in hand-made pickle state"
    # A4: typed Python-visible signatures (`scale: int`, `type_: type`, `key: str`, ...): the compiled build type-checks the argument at
    # call time ("Argument 'x' has incorrect type"), the pure build fails later, differently, or not at all.  This is the documented
    # TypeError-vs-AttributeError class of difference for wrong-typed arguments.
    if cexc == "TypeError" and "has incorrect type (expected" in cmsg:
        return "A4:typed argument rejected at call time"
    # A6: to_decimal_processor_factory(type_, scale: int) with a scale that is a number but not an int (True, 2.0, 2.7): the compiled
    # build coerces it to an exact int at call time (__Pyx_PyInt_FromNumber: "%.1f", "%.2f"), the pure build formats the object itself
    # ("%.Truef", "%.2.0f" -> ValueError when used).  Wrong-typed argument outside the annotated domain.
    if fam == "proc" and op in ("decimal", "decimal_kw") and opd is not None and opd[2][0] in ("bool", "float", "obj"):
        return "A6:non-int number passed as int scale"
    # A7: anon_map is a cdef class with __cinit__: Cython generates no default __reduce__ for it, the pure class pickles like a dict
    # subclass.  anon_map is a transient object created per cache-key generation and is never pickled or copied by the library.
    # Likewise the auto-generated pickle support of the cdef dict subclass prefix_anon_map does not carry the dict items (the round trip
    # yields an empty map).  Both maps are internal scratch objects of compilation / cache-key generation.
    if fam == "anon" and op == "pickle":
        return "A7:anon_map/prefix_anon_map pickling (transient internal cdef classes)"
    # A8: cdef classes have no instance __dict__: setting an arbitrary attribute raises AttributeError, while the pure dict
    # subclasses anon_map / prefix_anon_map (no __slots__) accept it.  Not part of any documented use.
    if fam == "anon" and op == "setattr" and cexc == "AttributeError" and "has no attribute" in cmsg:
        return "A8:no instance __dict__ on cdef class"
    # A9: prefix_anon_map.__missing__ declares `anonymous_counter: int`: a bool put BY HAND into a counter slot (m["name"] = True) is
    # formatted as the C integer ("name_1") by the compiled build and as the object ("name_True") by the pure build.  The library
    # only ever stores its own int counters there.
    if fam == "anon" and case["which"].startswith("prefix") and any(o[0] == "setitem" and len(o) > 3 and isinstance(o[3], bool) for o in case["ops"]) \
            and pe[1] == "ret" and ce[1] in ("ret", "fx") and "_True" in json.dumps(pe) + json.dumps(ce):
        return "A9:bool stored by hand in a prefix_anon_map counter slot"
    # A5: tuplegetter(*indexes: int) with non-int or beyond-ssize_t indexes: `_is_contiguous` reads them into Py_ssize_t and
    # `max_index: int` is typed, so the compiled build coerces / overflows where the pure build builds a getter that cannot work
    # on any sequence anyway.
    if fam == "eutil" and op == "tuplegetter" and opd is not None and any(
            not isinstance(x, int) and x not in ("bool", "myint") or isinstance(x, int) and abs(x) >= 2**62 for x in opd[1]):
        return "A5:tuplegetter with non-int / beyond-ssize_t index"
    return None


def _root_cause(fam, op, pe, ce, case):
    """specific signatures for confirmed divergences (see findings/C55/PROPOSED.txt)"""
    cexc = ce[2] if ce[1] == "exc" else None
    cmsg = ce[3] if ce[1] == "exc" else ""
    if fam in ("row", "result", "eutil") and cexc == "TypeError" and "Expected tuple, got MyTuple" in cmsg and pe[1] != "exc":
        return "C55/row/tuple-subclass-data/compiled-TypeError"
    if fam == "idict" and case.get("base") == "subbase" and op in ("copycopy", "deepcopy", "pickle", "reduce"):
        return "C55/idict/ImmutableDictBase-subclass-copy/compiled-drops-items"
    return None


def _compare(fam, case, pure, comp, ctx):
    n = min(len(pure), len(comp))
    for i in range(n):
        pe, ce = pure[i], comp[i]
        if pe == ce:
            continue
        label = pe[0]
        op = label.split(":", 1)[1] if ":" in label else label
        if pe[0] != ce[0]:
            kind = "trace-shape"
        elif pe[1] == "exc" and ce[1] == "exc":
            if pe[2] == ce[2]:
                if not (_msg_comparable(pe) and _msg_comparable(ce)) or pe[3] == ce[3]:
                    continue
                kind = f"message({pe[2]})"
            else:
                kind = f"exc({pe[2]})-vs-exc({ce[2]})"
        elif pe[1] == "exc":
            kind = f"exc({pe[2]})-vs-ret"
        elif ce[1] == "exc":
            kind = f"ret-vs-exc({ce[2]})"
        elif pe[1] == "fx":
            kind = "side-effect"
        else:
            kind = "value" if pe[2][0] == ce[2][0] else f"type({pe[2][0]}-vs-{ce[2][0]})"
        opd = None
        if ":" in label and label.split(":", 1)[0].isdigit():
            opd = case["ops"][int(label.split(":", 1)[0])]
        reason = _artefact(fam, op, pe, ce, case, opd)
        if reason:
            ctx.info(f"normalised:{reason}")
            return
        raise Violation(_root_cause(fam, op, pe, ce, case) or f"C55/{fam}/{op}/{kind}", f"entry {i} at op {label}: pure build {pe[1:]} != compiled build {ce[1:]}",
                        observed={"compiled": ce, "pure": pe}, expected="identical trace entries")
    if len(pure) != len(comp):
        raise Violation(f"C55/{fam}/trace-length", f"pure trace has {len(pure)} entries, compiled {len(comp)}",
                        observed={"pure_tail": pure[n:][:3], "compiled_tail": comp[n:][:3]})


# ops that reach an explicit `cython.compiled` branch or a typed-argument boundary
_NT_OPS = {
    "coll": {"new", "unique_list", "insert_b", "getitem_b", "insert", "getitem", "symmetric_difference", "symmetric_difference_update", "pickle", "copycopy",
             "deepcopy", "kwarg", "setattr"},
    "iset": None,  # every IdentitySet op goes through _get_id (compiled: pointer cast, pure: id())
    "idict": {"union", "merge_with", "or", "ror", "setattr", "pickle", "ior", "init_again", "fromkeys"},
    "row": None,  # construction goes through _set_attrs (compiled branch) in every program
    "proc": {"decimal", "decimal_kw", "decimal_misc"},
    "eutil": {"tuplegetter", "_distill_params_20", "_distill_raw_params"},
    "anon": None,  # __getitem__/__missing__/get_anon differ structurally between the builds
    "result": None,  # many_rows / _apply_processors have compiled-only bodies
}


_NONSET = ("list", "tuple", "gen", "str", "badgen")


def _exclude_known(fam, case, ctx):
    """C54 known finding (both builds): OrderedSet.symmetric_difference_update / ^= with a duplicate-carrying non-set iterable leaves
    duplicates in the internal list.  The corrupted state then leaks differently (pure pickles the _list slot, compiled rebuilds from
    iteration), which is a consequence of that defect, not a second one: the trigger is removed from the program by de-duplicating
    the argument."""
    if case.get("pinned"):
        return case
    def _procs_active(c):
        return bool(c.get("procs")) and any(p_ != "none" for p_ in c["procs"][: len(c["keys"])])

    # (tuple-subclass source rows WITH an active result processor stay in: _apply_processors builds a fresh tuple first, so the known
    # divergence is not reached and the container-type class {tuple, list, tuple subclass} is covered for the processor path)
    if fam == "row" and any(r["dk"] == "mytuple" for r in case["rows"]) or fam == "result" and case["rowkind"] == "mytuple" and not _procs_active(case):
        # confirmed divergence C55/row/tuple-subclass-data: the compiled BaseRow rejects tuple-subclass row data (cdef `data: tuple` is an
        # exact-type check) that the pure build accepts.  Trigger replaced by a plain tuple; pinned replay keeps the original.
        case = json.loads(json.dumps(case))
        if fam == "row":
            for r in case["rows"]:
                if r["dk"] == "mytuple":
                    r["dk"] = "tuple"
        else:
            case["rowkind"] = "tuple"
        ctx.exclude("tuple-subclass row data (known divergence: compiled BaseRow raises TypeError 'Expected tuple')")
        return case
    if fam == "idict" and case["base"] == "subbase" and any(o[0] in ("copycopy", "deepcopy", "pickle", "reduce") for o in case["ops"]):
        # confirmed divergence C55/idict/ImmutableDictBase-subclass-copy: copy/pickle of a plain Python subclass of ImmutableDictBase
        # raises TypeError in the pure build and silently yields an EMPTY copy in the compiled build.
        case = json.loads(json.dumps(case))
        for o in case["ops"]:
            if o[0] in ("copycopy", "deepcopy", "pickle", "reduce"):
                o[0] = "read"
        ctx.exclude("copy/pickle of an ImmutableDictBase subclass without __reduce__ (known divergence)")
        return case
    if fam != "coll":
        return case
    tab = interp.value_table()
    out = None
    for i, opd in enumerate(case["ops"]):
        if opd[0] in ("symmetric_difference_update", "ixor") and opd[4] and opd[4][0][0] in _NONSET:
            kind, vals = opd[4][0]
            seen_h, keep = [], []
            for v in vals:
                x = (v % 4) if kind == "str" else tab[v % len(tab)]
                if isinstance(x, interp.AllEq):
                    continue
                if not isinstance(x, interp.Unh) and any(x == y for y in seen_h):
                    continue
                if not isinstance(x, interp.Unh):
                    seen_h.append(x)
                keep.append(v)
            if keep != list(vals):
                if out is None:
                    out = json.loads(json.dumps(case))
                out["ops"][i][4][0][1] = keep
    if out is not None:
        ctx.exclude("OrderedSet.symmetric_difference_update/^= with duplicate-carrying non-set iterable (C54 known finding; state corruption in both builds)")
        return out
    return case


def _mk_check(fam):
    nt_ops = _NT_OPS[fam]

    def check(case, ctx):
        case = _exclude_known(fam, case, ctx)
        ops = [o[0] for o in case["ops"]]
        classes = set(ops)
        nontrivial = True if nt_ops is None else any(o in nt_ops for o in ops)
        if any(o.endswith("_b") for o in ops):
            classes.add("typed-boundary")
        if fam == "result":
            active = bool(case.get("procs")) and any(p_ != "none" for p_ in case["procs"][: len(case["keys"])]) and bool(case["data"])
            classes.add(f"rows:{case['rowkind']}" + ("+processors" if active else ""))
            if active and case["rowkind"] == "list":
                classes.add("list-rows+processors(source observed)")
        if fam == "row":
            for r_ in case["rows"]:
                if r_.get("procs") and r_["dk"] in ("list", "tuple", "mytuple"):
                    classes.add(f"rowdata:{r_['dk']}+processors(source observed)")
        ctx.note(case, nontrivial, classes=classes)
        child = _child_for(ctx)
        pure = json.loads(json.dumps(interp.run(fam, case)))
        comp = child.run(fam, case)
        _compare(fam, case, pure, comp, ctx)

    check.__name__ = f"check_{fam}"
    return check


def check_xpickle(case, ctx):
    """cross-build pickles: an object pickled by the pure build must load in the compiled build (and vice versa) to the same
    observable object ("... so that pickles with the Cy extension or without use the same Binary format", engine/_row_cy.py)"""
    if case["what"] == "oset" and not case.get("pinned"):
        # confirmed divergence C55/xpickle/oset/pure-to-compiled: the pure OrderedSet pickles its `_list` slot, which the compiled cdef class
        # cannot restore (AttributeError); replaced by an immutabledict, the pinned replay keeps the OrderedSet
        ctx.exclude("OrderedSet pickled by the pure build and loaded by the compiled build (known divergence)")
        case = dict(case, what="imm")
    ctx.note(case, True, classes=[case["what"], f"proto{case['proto']}", "procs" if case.get("procs") else "noprocs"])
    child = _child_for(ctx)
    pure_dump = json.loads(json.dumps(interp.run("xdump", case)))
    comp_dump = child.run("xdump", case)
    _compare("xpickle", case, pure_dump[1:], comp_dump[1:], ctx)  # descriptions of the fresh objects agree
    desc = pure_dump[1][2]
    for direction, hexs, loader in (("pure->compiled", pure_dump[0][2], lambda c: child.run("xload", c)),
                                    ("compiled->pure", comp_dump[0][2], lambda c: json.loads(json.dumps(interp.run("xload", c))))):
        got = loader({"hex": hexs, "ops": []})[0]
        if got[1] != "ret" or got[2] != interp.Canon()(desc):
            raise Violation(f"C55/xpickle/{case['what']}/{direction.replace('->', '-to-')}", f"{direction}: unpickled {got[1:]} but the pickled object was {desc}",
                            observed=got, expected=desc)


_xpickle_cases = st.fixed_dictionaries({
    "what": st.sampled_from(["row", "row", "rowmapping", "rows", "imm", "oset"]), "data": st.lists(st.integers(0, 11), max_size=5),
    "procs": st.one_of(st.none(), st.lists(st.sampled_from(["none", "str", "ident"]), min_size=1, max_size=5)), "proto": st.integers(2, 5),
    "ops": st.just([]),
})


# ------------------------------------------------------------------ generators
_vsmall = st.integers(0, 11)
_vi = st.one_of(_vsmall, _vsmall, st.integers(0, 21))
_vals = st.lists(_vi, max_size=5)
_BKEYS = sorted(interp.BOUNDARY)
_bkey = st.sampled_from(_BKEYS)

COLL_KINDS = ["list", "tuple", "set", "frozenset", "gen", "dictkeys", "dict", "oset", "self", "ref", "list", "tuple", "gen", "str", "none", "int", "badgen"]
_cargspec = st.tuples(st.sampled_from(COLL_KINDS), _vals)
C_ELEM = ["add", "remove", "discard", "contains", "kwarg"]
C_NOARG = ["pop", "clear", "copy", "len", "iter", "repr", "str", "bool", "hash", "reversed", "pickle", "copycopy", "deepcopy", "class_getitem", "setattr", "new_noarg"]
C_MULTI = ["update", "union", "intersection", "difference", "intersection_update", "difference_update"]
C_SINGLE = ["symmetric_difference", "symmetric_difference_update", "issubset", "issuperset", "isdisjoint", "new", "unique_list", "unique_list"]
C_OPER = ["or", "and", "sub", "xor", "add_op", "le", "lt", "ge", "gt", "eq", "ne", "ior", "iand", "isub", "ixor", "r_or", "r_and", "r_sub", "r_xor", "r_le", "r_eq"]


@st.composite
def _coll_programs(draw):
    init = draw(st.lists(_cargspec, min_size=1, max_size=2))
    ops = []
    for _ in range(draw(st.integers(1, 14))):
        g = draw(st.sampled_from(["elem", "noarg", "multi", "single", "oper", "pos", "posb", "single", "oper"]))
        ti = draw(st.integers(0, 3))
        if g == "elem":
            ops.append([draw(st.sampled_from(C_ELEM)), ti, draw(_vi), 0, []])
        elif g == "noarg":
            ops.append([draw(st.sampled_from(C_NOARG)), ti, 0, draw(st.integers(0, 3)), []])
        elif g == "multi":
            ops.append([draw(st.sampled_from(C_MULTI)), ti, 0, 0, draw(st.lists(_cargspec, max_size=3))])
        elif g == "single":
            ops.append([draw(st.sampled_from(C_SINGLE)), ti, 0, 0, [draw(_cargspec)]])
        elif g == "oper":
            ops.append([draw(st.sampled_from(C_OPER)), ti, 0, 0, [draw(_cargspec)]])
        elif g == "pos":
            ops.append([draw(st.sampled_from(["insert", "getitem"])), ti, draw(_vi), draw(st.integers(-7, 7)), []])
        else:
            ops.append([draw(st.sampled_from(["insert_b", "getitem_b"])), ti, draw(_vi), draw(_bkey), []])
    return {"init": init, "ops": ops}


I_KINDS = ["list", "tuple", "gen", "iset", "sub", "self", "set", "none", "int", "dict", "list", "iset"]
_ipi = st.integers(0, 9)
_iarg = st.tuples(st.sampled_from(I_KINDS), st.lists(_ipi, max_size=5))
I_ELEM = ["add", "remove", "discard", "contains"]
I_NOARG = ["pop", "clear", "copy", "__copy__", "len", "iter", "repr", "hash", "bool", "pickle", "copycopy", "new_none", "setattr"]
I_ITER = ["union", "update", "difference", "difference_update", "intersection", "intersection_update", "symmetric_difference",
          "symmetric_difference_update", "issubset", "issuperset"]
I_OPER = ["or", "and", "sub", "xor", "le", "lt", "ge", "gt", "eq", "ne", "ior", "iand", "isub", "ixor", "r_or", "r_and", "r_sub", "r_le", "r_eq"]


@st.composite
def _iset_programs(draw):
    ops = []
    for _ in range(draw(st.integers(1, 14))):
        g = draw(st.sampled_from(["elem", "noarg", "iter", "iter", "oper", "oper"]))
        if g == "elem":
            ops.append([draw(st.sampled_from(I_ELEM)), draw(_ipi), ["list", []]])
        elif g == "noarg":
            ops.append([draw(st.sampled_from(I_NOARG)), draw(_ipi), ["list", []]])
        elif g == "iter":
            ops.append([draw(st.sampled_from(I_ITER)), 0, draw(_iarg)])
        else:
            ops.append([draw(st.sampled_from(I_OPER)), 0, draw(_iarg)])
    return {"init": draw(_iarg), "ops": ops}


_dkey = st.sampled_from(["a", "b", "c", "d", 1, 2])
_ditems = st.lists(st.tuples(_dkey, st.integers(0, 9)), max_size=4)
D_KINDS = ["none", "dict", "imm", "subimm", "mydict", "mapping", "abcmap", "empty_imm", "pairs", "int", "str", "base", "dict", "imm"]
_dspec = st.tuples(st.sampled_from(D_KINDS), _ditems)
D_MUT = ["setitem", "delitem", "clear", "pop", "pop2", "pop0", "popitem", "setdefault", "setdefault1", "update", "update_kw", "update0", "ior", "setattr", "delattr",
         "init_again", "dict_setitem"]
D_READ = ["copy", "pickle", "reduce", "copycopy", "deepcopy", "read", "getitem", "repr", "hash", "class_getitem", "fromkeys"]


@st.composite
def _idict_programs(draw):
    ops = []
    for _ in range(draw(st.integers(1, 12))):
        g = draw(st.sampled_from(["mut", "merge", "merge", "oper", "read"]))
        k, v = draw(_dkey), draw(st.integers(0, 9))
        if g == "mut":
            ops.append([draw(st.sampled_from(D_MUT)), k, v, [], False])
        elif g == "merge":
            ops.append([draw(st.sampled_from(["union", "merge_with"])), k, v, draw(st.lists(_dspec, max_size=3)), draw(st.booleans())])
        elif g == "oper":
            ops.append([draw(st.sampled_from(["or", "ror"])), k, v, [draw(_dspec)], draw(st.booleans())])
        else:
            ops.append([draw(st.sampled_from(D_READ)), k, v, [], False])
    base = draw(st.sampled_from(["imm", "imm", "imm", "imm_kw", "subbase", "ro", "subimm"]))
    return {"base": base, "init": draw(_ditems), "ops": ops}


R_NAMES = ["a", "b", "c", "_priv", "count", "index", "__len__", "", "x y", "far", "neg", "sl", "bad", "zero", "keys", "_data", "_parent", "_mapping", "t", "A",
           "_fields", "__class__", "missing", "_missing"]
_procname = st.sampled_from(["none", "none", "str", "int", "double", "boom", "ident"])
R_DK = ["tuple", "tuple", "tuple", "list", "mytuple", "row", "str", "gen", "none", "dictkeys"]


@st.composite
def _procs_spec(draw, n):
    if draw(st.integers(0, 2)) == 0:
        return None
    m = n if draw(st.integers(0, 5)) else draw(st.integers(0, 5))
    return [draw(st.sampled_from(["list", "tuple"])), [draw(_procname) for _ in range(m)]]


@st.composite
def _row_programs(draw):
    keys = draw(st.lists(st.sampled_from(R_NAMES[:20]), min_size=0, max_size=4, unique=True))
    n = len(keys)
    names = keys + draw(st.lists(st.sampled_from(R_NAMES), max_size=3))
    rows = []
    for _ in range(draw(st.integers(1, 3))):
        m = n if draw(st.integers(0, 5)) else draw(st.integers(0, 5))
        rows.append({
            "cls": draw(st.sampled_from(["Row", "Row", "BaseRow", "RowMapping"])),
            "parent": draw(st.sampled_from(["simple", "simple", "extra", "stub", "oddk2i"])),
            "dk": draw(st.sampled_from(R_DK)),
            "data": [draw(_vi) for _ in range(m)],
            "procs": draw(_procs_spec(n)),
        })
    ops = []
    ospec = st.tuples(st.sampled_from(["tuple", "list", "row", "rowref", "rowref", "int", "none", "mytuple", "str"]), _vals)
    for _ in range(draw(st.integers(1, 14))):
        g = draw(st.sampled_from(["idx", "attr", "cmp", "misc", "state", "attr", "cmp"]))
        ri = draw(st.integers(0, 2))
        if g == "idx":
            op = draw(st.sampled_from(["getitem", "getitem_slice", "getitem_b", "contains", "count", "index", "mapping_get_int"]))
            if op == "getitem_slice":
                s = st.one_of(st.none(), st.integers(-5, 5))
                a = [draw(s), draw(s), draw(st.one_of(st.none(), st.integers(-2, 3)))]
            elif op == "getitem_b":
                a = draw(_bkey)
            else:
                a = draw(st.integers(-6, 21))
            ops.append([op, ri, a, None])
        elif g == "attr":
            op = draw(st.sampled_from(["getattr", "getattr", "getattr_default", "hasattr", "getitem_key", "mapping_get", "setattr", "delattr", "setattr_data",
                                       "mapping_get_unhashable"]))
            ops.append([op, ri, draw(st.integers(0, 8)), None])
        elif g == "cmp":
            op = draw(st.sampled_from(["eq", "ne", "lt", "le", "gt", "ge", "r_eq", "r_lt", "r_ge"]))
            ops.append([op, ri, 0, draw(ospec)])
        elif g == "misc":
            op = draw(st.sampled_from(["len", "iter", "hash", "repr", "bool", "values_impl", "to_tuple", "attrs", "mapping", "asdict", "fields", "keys", "items",
                                       "tuple", "unpack", "add", "sorted", "dictkey", "filter_on_values"]))
            ops.append([op, ri, 0, draw(_procs_spec(n)) if op == "filter_on_values" else None])
        else:
            op = draw(st.sampled_from(["pickle", "reduce", "getstate", "setstate", "reconstructor", "copycopy", "init_kw", "init_badk2i"]))
            ops.append([op, ri, draw(st.integers(0, 4)), [draw(st.sampled_from(["tuple", "list", "none", "str"])), draw(_vals)]])
    return {"keys": keys, "names": names, "rows": rows, "ops": ops}


_ISO_ALPHA = "0123456789-:T .+Z"
_iso_valid = st.builds(
    lambda y, mo, d, h, mi, s, us, form: [
        f"{y:04d}-{mo:02d}-{d:02d}", f"{y:04d}-{mo:02d}-{d:02d} {h:02d}:{mi:02d}:{s:02d}", f"{y:04d}-{mo:02d}-{d:02d}T{h:02d}:{mi:02d}:{s:02d}.{us:06d}",
        f"{h:02d}:{mi:02d}:{s:02d}", f"{h:02d}:{mi:02d}", f"{h:02d}:{mi:02d}:{s:02d}.{us:06d}", f"{y:04d}{mo:02d}{d:02d}", f"{y:04d}-{mo:02d}-{d:02d} {h:02d}:{mi:02d}:{s:02d}+05:30",
        f"{y:04d}-W{(d % 52) + 1:02d}-{(d % 7) + 1}", f"{h:02d}:{mi:02d}:{s:02d}Z", f"{y:04d}-{mo:02d}-{d:02d} {h:02d}:{mi:02d}:{s:02d}.{us % 1000:03d}",
    ][form],
    st.integers(0, 9999), st.integers(0, 13), st.integers(0, 32), st.integers(0, 24), st.integers(0, 60), st.integers(0, 60), st.integers(0, 999999), st.integers(0, 10))
_iso_malformed = st.one_of(
    st.text(alphabet=_ISO_ALPHA, max_size=28),
    st.builds(lambda s, i, c: s[: i % (len(s) + 1)] + c + s[i % (len(s) + 1):], _iso_valid, st.integers(0, 40), st.sampled_from(list(_ISO_ALPHA) + ["١", "\x00", "x"])),
    st.builds(lambda s, i: s[: i % (len(s) + 1)] + s[i % (len(s) + 1) + 1:], _iso_valid, st.integers(0, 40)),
)
_pscalar = st.one_of(
    st.just(["none", 0]),
    st.tuples(st.just("int"), st.one_of(st.integers(-3, 3), st.sampled_from([2**70, -(2**70), 10**400]))).map(list),
    st.tuples(st.just("bool"), st.integers(0, 1)).map(list),
    st.tuples(st.just("float"), st.sampled_from(["nan", "inf", "-inf", "-0.0", "1e308", "1.5", "0.1", "2.675", "1e-320", "123456789.987654321"])).map(list),
    st.tuples(st.sampled_from(["str", "mystr", "bytes", "bytearray"]), st.one_of(_iso_valid, _iso_malformed, st.sampled_from(["1.5", "abc", "", " 2 ", "1e5", "nan", "٣"]))).map(list),
    st.tuples(st.just("dec"), st.sampled_from(["1.5", "NaN", "Infinity", "1E+400", "0.005", "-0", "2.675"])).map(list),
    st.tuples(st.sampled_from(["frac", "complex", "myint", "date", "datetime", "time"]), st.integers(0, 30)).map(list),
    st.tuples(st.just("obj"), st.sampled_from(["bad", "odd", "strint", "p", "rmod", "idx"])).map(list),
)
_pval = st.one_of(_pscalar, _pscalar, st.tuples(st.sampled_from(["tuple", "list", "dict"]), st.lists(_pscalar, max_size=2)).map(list))
_scale = st.one_of(
    st.tuples(st.just("int"), st.one_of(st.integers(-1, 30), st.sampled_from([2**70, 400, 2**31]))).map(list),
    st.sampled_from([["none", 0], ["bool", 1], ["str", "2"], ["float", "2.0"], ["myint", 3], ["obj", "idx"]]),
)
P_FUNCS = ["int_to_boolean", "to_str", "to_float", "str_to_datetime", "str_to_date", "str_to_time"]
P_TYPES = ["Decimal", "Decimal", "float", "str", "int", "repr", "lambda", "none", "MyStr", "tuple", "bytes", "boom"]


@st.composite
def _proc_programs(draw):
    ops = []
    for _ in range(draw(st.integers(1, 12))):
        g = draw(st.sampled_from(["fn", "fn", "fn", "iso", "iso", "dec", "dec", "deckw", "misc"]))
        if g == "fn":
            ops.append([draw(st.sampled_from(P_FUNCS)), draw(_pval), draw(st.integers(0, 4)) == 0])
        elif g == "iso":
            ops.append([draw(st.sampled_from(P_FUNCS[3:])), ["str", draw(st.one_of(_iso_valid, _iso_malformed))], False])
        elif g == "dec":
            ops.append(["decimal", draw(st.sampled_from(P_TYPES)), draw(_scale), draw(st.lists(_pval, min_size=1, max_size=3))])
        elif g == "deckw":
            ops.append(["decimal_kw", draw(st.sampled_from(P_TYPES)), draw(_scale), draw(st.lists(_pval, min_size=1, max_size=2))])
        else:
            ops.append(["decimal_misc"])
    return {"ops": ops}


E_LEAF = ["none", "dict", "emptydict", "imm", "mydict", "mappingproxy", "abcmap", "namedtuple", "str", "bytes", "int", "set", "obj", "range"]
E_CONT = ["list", "list", "tuple", "mylist", "mytuple", "gen", "deque", "dict"]
_eparams = st.recursive(st.sampled_from(E_LEAF).map(lambda k: [k]), lambda inner: st.tuples(st.sampled_from(E_CONT), st.lists(inner, max_size=3)).map(list), max_leaves=6)
_tg_index = st.one_of(st.integers(-3, 9), st.integers(0, 5), _bkey)


@st.composite
def _eutil_programs(draw):
    ops = []
    for _ in range(draw(st.integers(1, 10))):
        g = draw(st.sampled_from(["d20", "raw", "tg", "tg", "kw"]))
        if g == "d20":
            ops.append(["_distill_params_20", draw(_eparams)])
        elif g == "raw":
            ops.append(["_distill_raw_params", draw(_eparams)])
        elif g == "kw":
            ops.append(["distill_kw"])
        else:
            mode = draw(st.integers(0, 3))
            if mode == 0:  # contiguous run (slice form)
                s = draw(st.integers(-2, 6))
                idx = list(range(s, s + draw(st.integers(1, 4))))
            elif mode == 1:
                idx = draw(st.lists(st.integers(-3, 9), max_size=4))
            else:
                idx = draw(st.lists(_tg_index, max_size=4))
            ops.append(["tuplegetter", idx, draw(st.integers(0, 8)), draw(st.lists(st.sampled_from(["tuple", "list", "str", "row", "dict"]), min_size=1, max_size=2))])
    return {"ops": ops}


A_KK = ["int", "str", "tuple", "none", "unh", "bool", "float", "poolid", "huge", "neg", "alleq", "int", "str", "poolid"]
A_PREFIX_KEYS = ["1 foo", "2 foo", "3 foo", "foo", "", " ", " x", "a b c", "b c", "x b c", "c", "1 bar", "bar", "9  dbl", "é ü", "1 foo_1", "foo_1"]
A_OPS = ["getitem", "getitem", "getitem", "missing", "missing_kw", "get", "contains", "setitem", "delitem", "get_anon", "get_anon", "get_anon_fresh", "fmt", "len", "pop",
         "setdefault", "copy", "pickle", "clear", "index_attr", "setattr", "update", "eq"]


@st.composite
def _anon_programs(draw):
    which = draw(st.sampled_from(["anon", "anon", "anon_sub", "anon_init", "prefix", "prefix", "prefix_sub", "prefix_init"]))
    ops = []
    for _ in range(draw(st.integers(1, 14))):
        op = draw(st.sampled_from(A_OPS))
        if which.startswith("prefix") and draw(st.integers(0, 4)):
            kk, kv = "raw", draw(st.sampled_from(A_PREFIX_KEYS))
        else:
            kk, kv = draw(st.sampled_from(A_KK)), draw(st.integers(0, 6))
        o = [op, kk, kv]
        if op == "setitem":
            o.append(draw(st.sampled_from([True, 1, "foo_1", "x", None, 5, 2**70])))
        ops.append(o)
    return {"which": which, "ops": ops}


RS_OPS = ["fetchone", "fetchmany", "all", "first", "one", "one_or_none", "scalar", "scalar_one", "scalar_one_or_none", "next", "iter", "partitions",
          "raw_all_tuples", "raw_all_tuples", "raw_all_tuples", "freeze", "close", "keys", "fetchone", "fetchmany", "all"]


@st.composite
def _result_programs(draw):
    keys = draw(st.lists(st.sampled_from(["a", "b", "c", "d"]), min_size=1, max_size=4, unique=True))
    n = len(keys)
    data = draw(st.lists(st.lists(st.integers(0, 9), min_size=n, max_size=n), max_size=7))
    mods = []
    for _ in range(draw(st.integers(0, 3))):
        m = draw(st.sampled_from(["unique", "unique_fn", "columns", "scalars", "mappings", "tuples", "yield_per"]))
        if m == "columns":
            arg = draw(st.lists(st.one_of(st.integers(0, 3), st.sampled_from(keys)), min_size=1, max_size=3))
        elif m == "scalars":
            arg = draw(st.integers(0, 3))
        elif m == "yield_per":
            arg = draw(st.integers(1, 4))
        else:
            arg = None
        mods.append([m, arg])
    ops = []
    for _ in range(draw(st.integers(1, 6))):
        op = draw(st.sampled_from(RS_OPS))
        ops.append([op, draw(st.one_of(st.none(), st.integers(1, 4))) if op == "fetchmany" else draw(st.integers(1, 3))])
    return {
        "keys": keys, "rowkind": draw(st.sampled_from(["tuple", "list", "list", "mytuple"])), "data": data,
        "procs": draw(st.one_of(st.none(), st.lists(st.sampled_from(["none", "str", "double", "ident", "boom"]), min_size=1, max_size=4))),
        "uniq_filters": draw(st.one_of(st.none(), st.lists(st.sampled_from(["none", "str", "mod2"]), min_size=1, max_size=2))),
        "log": draw(st.integers(0, 3)) == 0, "mods": mods, "ops": ops,
    }


_STRATS = {
    "coll": _coll_programs, "iset": _iset_programs, "idict": _idict_programs, "row": _row_programs, "proc": _proc_programs, "eutil": _eutil_programs,
    "anon": _anon_programs, "result": _result_programs,
}


def subs(tier):
    _prestart()
    return [Generated(fam, _mk_check(fam), strategy=_STRATS[fam](), quick=2000, thorough=25000) for fam in _STRATS] + [
        Generated("xpickle", check_xpickle, strategy=_xpickle_cases, quick=400, thorough=5000)]
