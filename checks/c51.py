"""C51 - pickling and serializer round-trips preserve state and results.

orm     : mapped objects (checks/_pickle_models.py) in every lifecycle state, with expired attributes, unloaded
          relationships, deferred columns, loader options, pending (unflushed) attribute / collection changes;
          pickle protocols 2-5; the copy has the same class, loaded values, expired / unloaded sets, identity key,
          history of pending changes, and - re-attached to a new Session - loads every unloaded attribute to the DB value.
rows    : Row / list of Row / RowMapping / FrozenResult from Core, ORM and mixed statements survive pickle
          (==, _fields, string-key mapping, entity identity keys) and a frozen result replays identically twice.
metadata: generated MetaData (types, PK/FK/unique/check constraints, indexes, naming conventions): CREATE TABLE /
          CREATE INDEX text per table and sorted_tables are equal after pickle, and the copy can create its schema.
serializer: generated Core / ORM statements and Query objects through ext.serializer dumps/loads compile to the same
          SQL + parameters and execute to the same rows.
"""
from __future__ import annotations

import os
import pickle

from hypothesis import strategies as st
from sqlalchemy import (
    Boolean, CheckConstraint, Column, DateTime, Enum, Float, ForeignKey, ForeignKeyConstraint, Index, Integer, LargeBinary, MetaData, Numeric, String, Table, Text,
    UniqueConstraint, and_, case, cast, create_engine, exists, func, inspect, literal, not_, or_, select, union_all,
)
from sqlalchemy.dialects import sqlite as _sqlite
from sqlalchemy.ext import serializer
from sqlalchemy.orm import Session, aliased, defaultload, defer, joinedload, lazyload, scoped_session, selectinload, sessionmaker, undefer
from sqlalchemy.schema import CreateIndex, CreateTable

from vf import sautil
from vf.api import Generated, Violation

from . import _pickle_models as M

PROPERTY = "C51"
LEVEL = "exploration"
RULE = (
    "orm: drawn (user id, lifecycle state in transient/pending/persistent/detached/closed, loader options subset of defer/undefer/selectinload/joinedload/lazyload, "
    "pre-pickle ops: expire attribute(s), touch relationship / deferred column, unflushed scalar set, collection append/remove, what is pickled: the user, one of its "
    "addresses, or a list) x protocol 2-5. rows: statement shape x container x protocol. metadata: 1-4 tables with drawn columns/types/constraints/indexes/naming "
    "convention. serializer: statements from a drawn spec (FROM core table / ORM entity / join, columns, predicates with binds, IN, EXISTS, subquery, union, "
    "group by, order by, limit), statements over aliased() entities (plain, named, over a subquery of the mapped table, over a subquery of an unrelated table with "
    "adapt_on_names=True; selecting the entity, its columns, or a join of the class to its alias) and Query objects. Non-trivial: orm case has >=1 expired-or-deferred attribute and >=1 loaded relationship (or a pending change); "
    "rows case has >1 row; metadata has a foreign key or an index; serializer statement contains a bind, a table and an ORM entity; distinct = canonical JSON"
)
ASSUMPTIONS = [
    "one read-only fixture database per shard process; no case commits (sessions are rolled back), so the DB truth is the fixture",
    "unpickled Rows support string keys only (documented: 'lookup by ColumnElement is unsupported')",
    "pickle protocols 0 and 1 are outside the domain: Python refuses to pickle the __slots__ class PendingCollection without __getstate__ (confirmed on the unchanged tree), so an object with queued collection mutations only pickles with protocol >= 2",
    "orm_twin compares flush SQL as a multiset of (statement, parameter set): INSERT order of unrelated pending objects follows the order they entered the session",
    "a pending (never flushed) object unpickles as transient; persistent/detached unpickle as detached (objects are not re-attached by pickle)",
    "ext.serializer identifiers: table / column keys containing ':' are excluded (known finding, pinned replay)",
    "aliased() entities built directly on a Table or a flat Join are excluded from generation (known finding aliased-entity-on-table-selectable, two pinned replays)",
    "arithmetic composition on a deserialised non-Column expression whose comparator was memoized before pickling is excluded (known finding shared with C03, pinned replay)",
    "metadata: python-side defaults are scalars (callables would have to be importable); no schema-qualified names on SQLite",
]

# ------------------------------------------------------------------ shared fixture DB (one per process)
_FIX = {}


def _fixture(ctx):
    key = ctx.scratch
    if key not in _FIX:
        path = os.path.join(ctx.scratch, "c51_fixture.sqlite")
        eng = create_engine(f"sqlite:///{path}", connect_args={"autocommit": False, "timeout": 1.0})
        M.metadata.create_all(eng)
        with Session(eng) as s:
            M.populate(s)
        _FIX.clear()
        _FIX[key] = eng
    return _FIX[key]


def _truth(uid):
    return {
        "id": uid, "name": f"user{uid}", "nick": f"n{uid % 2}", "bio": f"bio of {uid}",
        "addresses": [uid * 10 + j for j in range(uid - 1)], "keywords": list(range(1, (uid % 4) + 1)),
    }


# ------------------------------------------------------------------ orm objects
def _val(v):
    if isinstance(v, list):
        return [_val(x) for x in v]
    if isinstance(v, (M.User, M.Address, M.Keyword)):
        d = v.__dict__
        k = inspect(v).key
        return [type(v).__name__, d.get("id") if d.get("id") is not None or k is None else k[1][0], d.get("email") if isinstance(v, M.Address) else d.get("word") if isinstance(v, M.Keyword) else d.get("name")]
    return v


def _hist(h):
    return [_val(list(h.added or ())), _val(list(h.unchanged or ())), _val(list(h.deleted or ()))]


def _summary(o):
    i = inspect(o)
    d = {k: _val(v) for k, v in o.__dict__.items() if not k.startswith("_sa")}
    hist = {}
    for k in i.committed_state:
        hist[k] = _hist(i.attrs[k].history)
    flags = "transient" if i.transient else "pending" if i.pending else "persistent" if i.persistent else "detached" if i.detached else "deleted"
    return {"cls": type(o).__name__, "dict": d, "expired": sorted(i.expired_attributes), "unloaded": sorted(i.unloaded), "key": None if i.key is None else [i.key[0].__name__, list(i.key[1])],
            "modified": i.modified, "pending_history": hist, "flags": flags}


_FLAG_AFTER = {"transient": "transient", "pending": "transient", "persistent": "detached", "detached": "detached"}


def check_orm(case, ctx):
    eng = _fixture(ctx)
    uid = case["uid"]
    proto = case["proto"]
    s = Session(eng)
    s2 = None
    classes = {case["state"], f"proto{proto}"}
    try:
        state = case["state"]
        if state in ("transient", "pending"):
            u = M.User(id=100 + uid, name="fresh", nick=None)
            for j in range(uid % 3):
                u.addresses.append(M.Address(id=1000 + j, email=f"new{j}"))
            if state == "pending":
                s.add(u)
        else:
            opts = []
            for o in case["opts"]:
                opts.append({"defer_name": defer(M.User.name), "undefer_bio": undefer(M.User.bio), "selectin_addresses": selectinload(M.User.addresses),
                             "joined_keywords": joinedload(M.User.keywords), "lazy_addresses": lazyload(M.User.addresses), "defer_nick_raise": defer(M.User.nick, raiseload=False),
                             "selectin_addr_user": selectinload(M.User.addresses).selectinload(M.Address.user),
                             "defer_addr_email": defaultload(M.User.addresses).defer(M.Address.email)}[o])
            u = s.execute(select(M.User).options(*opts).where(M.User.id == uid)).unique().scalar_one()
        with s.no_autoflush:
            for pre in case["pre"]:
                kind, arg = pre
                classes.add(kind)
                if kind == "expire_attr" and state not in ("transient", "pending"):
                    s.expire(u, [arg])
                elif kind == "expire_all" and state not in ("transient", "pending"):
                    s.expire(u)
                elif kind == "touch":
                    getattr(u, arg)
                elif kind == "set":
                    setattr(u, arg[0], arg[1])
                elif kind == "append_addr":
                    u.addresses.append(M.Address(id=2000 + arg, email=f"pend{arg}"))
                elif kind == "remove_addr":
                    if u.addresses:
                        u.addresses.remove(u.addresses[arg % len(u.addresses)])
                elif kind == "set_keywords":
                    u.keywords = list(u.keywords)[: arg]
            if state == "detached":
                s.expunge(u)
            elif state == "closed":
                s.close()
            target_kind = case["target"]
            if target_kind == "address" and "addresses" in u.__dict__ and u.addresses:
                target = u.addresses[0]
            elif target_kind == "list":
                target = [u, u]
            else:
                target = u
                target_kind = "user"
            before = _summary(u)
            before_target = _summary(target) if target_kind == "address" else None
        has_unloaded = bool(before["expired"] or "bio" in before["unloaded"] or "name" in before["unloaded"])
        has_rel = any(k in before["dict"] for k in ("addresses", "keywords"))
        nontrivial = (has_unloaded and has_rel) or bool(before["pending_history"])
        if has_unloaded:
            classes.add("expired-or-deferred")
        if has_rel:
            classes.add("loaded-relationship")
        if before["pending_history"]:
            classes.add("pending-changes")
        ctx.note(case, nontrivial, classes=classes)

        classes_after = set()
        blob = pickle.dumps(target, proto)
        copy_ = pickle.loads(blob)
        if target_kind == "list":
            if copy_[0] is not copy_[1]:
                raise Violation("C51/orm/list/shared-identity-lost", "pickling [u, u] produced two distinct objects")
            u2 = copy_[0]
        elif target_kind == "address":
            after_t = _summary(copy_)
            exp_t = dict(before_target, flags=_FLAG_AFTER.get(before_target["flags"], before_target["flags"]))
            _diff("orm/address", exp_t, after_t)
            u2 = copy_.__dict__.get("user")
            if u2 is None:
                return
        else:
            u2 = copy_
        if type(u2) is not M.User:
            raise Violation("C51/orm/class", f"copy is {type(u2)}")
        after = _summary(u2)
        exp_state = "closed" if state == "closed" else state
        exp_flags = {"transient": "transient", "pending": "transient", "persistent": "detached", "detached": "detached", "closed": "detached"}[exp_state]
        expected = dict(before, flags=exp_flags)
        _diff("orm/user", expected, after)

        # the copy is functional: re-attach and load everything that was not loaded
        s.rollback()
        s.close()
        if after["key"] is not None:
            s2 = Session(eng)
            with s2.no_autoflush:
                s2.add(u2)
                truth = _truth(uid)
                for attr in after["unloaded"]:
                    try:
                        got = getattr(u2, attr)
                    except Exception as e:  # noqa: any failure to load through the unpickled loader callable is the finding
                        raise Violation(f"C51/orm/reload/{attr}/{type(e).__name__}", f"loading {attr!r} on the re-attached copy failed: {e}")
                    gv = [x.id for x in got] if isinstance(got, list) else got
                    if attr == "addresses" and "defer_addr_email" in case["opts"] and state not in ("transient", "pending"):
                        # loader options bound to the instance travel with it: the lazy load on the copy must still defer Address.email
                        ctx.info("orm:instance-bound-option-checked")
                        eager = [a.id for a in got if "email" in a.__dict__]
                        if eager:
                            raise Violation("C51/orm/reload/instance-bound-loader-option-lost",
                                            f"defaultload(User.addresses).defer(Address.email) was bound to the pickled instance, but the lazy load on the copy loaded email for {eager}")
                    if gv != truth[attr]:
                        raise Violation(f"C51/orm/reload/{attr}/value", f"re-attached copy loaded {attr}={gv!r}, database has {truth[attr]!r}", observed=gv, expected=truth[attr])
                # attributes that were loaded keep their (possibly pending) value
                for k, v in after["dict"].items():
                    if _val(getattr(u2, k)) != v:
                        raise Violation(f"C51/orm/reattach/{k}/value-changed", f"attribute {k} changed on re-attach: {_val(getattr(u2, k))!r} != {v!r}")
                # Session.dirty is documented as "optimistic": it follows the state's modified flag (compared above), not the net history
                if before["modified"] != (u2 in s2.dirty):
                    raise Violation("C51/orm/reattach/dirty-flag", f"modified flag {before['modified']} but copy in session.dirty = {u2 in s2.dirty}")
    finally:
        s.rollback()
        s.close()
        if s2 is not None:
            s2.rollback()
            s2.close()


def _diff(what, exp, got):
    for k in exp:
        if exp[k] != got[k]:
            raise Violation(f"C51/{what}/{k}", f"{k} before pickle {exp[k]!r} != after {got[k]!r}", observed=got[k], expected=exp[k])


_OPTS = ["defer_name", "undefer_bio", "selectin_addresses", "joined_keywords", "lazy_addresses", "selectin_addr_user"]


@st.composite
def _orm_cases(draw):
    pre = []
    for _ in range(draw(st.integers(0, 4))):
        k = draw(st.sampled_from(["expire_attr", "expire_attr", "expire_all", "touch", "touch", "set", "append_addr", "remove_addr", "set_keywords"]))
        if k == "expire_attr":
            arg = draw(st.sampled_from(["name", "nick", "bio", "addresses", "keywords"]))
        elif k == "touch":
            arg = draw(st.sampled_from(["addresses", "keywords", "bio", "name"]))
        elif k == "set":
            arg = [draw(st.sampled_from(["name", "nick", "bio"])), draw(st.sampled_from(["zz", None, "user3"]))]
        else:
            arg = draw(st.integers(0, 3))
        pre.append([k, arg])
    return {
        "uid": draw(st.integers(1, 4)), "proto": draw(st.integers(2, 5)),
        "state": draw(st.sampled_from(["transient", "pending", "persistent", "persistent", "persistent", "detached", "closed"])),
        "opts": draw(st.lists(st.sampled_from(_OPTS[:2] + ["joined_keywords"]), max_size=3, unique=True)) + draw(st.sampled_from([[], ["selectin_addresses"], ["lazy_addresses"], ["selectin_addr_user"], ["defer_addr_email"], ["defer_addr_email"]])),
        "pre": pre,
        "target": draw(st.sampled_from(["user", "user", "address", "list"])),
    }


# ------------------------------------------------------------------ orm_twin: differential against the never-pickled twin
_ATTRS = ["name", "nick", "bio", "addresses", "keywords"]


def _pm_summary(state):
    """queued ("pending") collection mutations on unloaded collections: {key: (added, removed)}"""
    out = {}
    for k, pc in getattr(state, "_pending_mutations", {}).items():
        out[k] = [sorted(_val(x)[1:] for x in pc.added_items), sorted(_val(x)[1:] for x in pc.deleted_items)]
    return out


def _state_fields(o):
    """every InstanceState field that __getstate__ carries, in a comparable form"""
    st_ = inspect(o)
    lp = st_.load_path
    return {
        "dict": {k: _val(v) for k, v in o.__dict__.items() if not k.startswith("_sa")},
        "modified": st_.modified,
        "expired": st_.expired,
        "callables": sorted(st_.callables),
        "key": None if st_.key is None else [st_.key[0].__name__, list(st_.key[1]), st_.key[2]],
        "load_options": [str(getattr(x, "path", x)) for x in st_.load_options],
        "load_path": None if not lp else [[getattr(a, "__name__", None) or str(a) for a in pair] for pair in lp.serialize()],
        "expired_attributes": sorted(st_.expired_attributes),
        "committed_state": {k: _hist(st_.attrs[k].history) for k in st_.committed_state},
        "pending_mutations": _pm_summary(st_),
        "unloaded": sorted(st_.unloaded),
    }


def _twin_build(case, sess):
    """deterministic construction of the object graph; returns (user, [auxiliary objects that must travel with it])"""
    uid = case["uid"]
    opts = [{"defer_name": defer(M.User.name), "undefer_bio": undefer(M.User.bio), "joined_keywords": joinedload(M.User.keywords),
             "lazy_addresses": lazyload(M.User.addresses), "defer_addr_email": defaultload(M.User.addresses).defer(M.Address.email)}[o] for o in case["opts"]]
    u = sess.execute(select(M.User).options(*opts).where(M.User.id == uid)).unique().scalar_one()
    aux = []
    for kind, arg in case["pre"]:
        if kind == "expire_attr":
            sess.expire(u, [arg])
        elif kind == "expire_all":
            sess.expire(u)
        elif kind == "touch":
            getattr(u, arg)
        elif kind == "set":
            setattr(u, arg[0], arg[1])
        elif kind == "backref_append":
            # many-to-one side set while User.addresses is (possibly) unloaded: queued on the parent as a pending append
            aux.append(M.Address(id=3000 + arg, email=f"queued{arg}", user=u))
        elif kind == "backref_remove":
            ids = _truth(uid)["addresses"]
            if ids:
                a = sess.get(M.Address, ids[arg % len(ids)])
                a.user = None
                aux.append(a)
        elif kind == "backref_move":
            other = 4 if uid != 4 else 3
            a = sess.get(M.Address, _truth(other)["addresses"][arg % len(_truth(other)["addresses"])])
            a.user = u
            aux.append(a)
        elif kind == "coll_append":
            aux.append(M.Address(id=3100 + arg, email=f"direct{arg}"))  # travels with the user: a later expire may drop the only reference from u
            u.addresses.append(aux[-1])
        elif kind == "set_keywords":
            u.keywords = list(u.keywords)[:arg]
    det = case["detach"]
    if det == "expunge":
        sess.expunge(u)
    elif det == "expunge_all":
        sess.expunge_all()
    elif det == "close":
        sess.close()
    return u, aux


def _twin_observe(eng, sess, u, aux, reattach):
    """behaviour of the object once it is (re-)attached: lazy loads, history, flush SQL"""
    from sqlalchemy.orm import object_session

    out = {}
    if reattach:
        for o in [u] + aux:
            if object_session(o) is None:
                sess.add(o)
    for attr in _ATTRS:
        try:
            out["value:" + attr] = _val(getattr(u, attr))
        except Exception as e:  # noqa: the exception type is the observation; both sides must agree
            out["value:" + attr] = ["exc", type(e).__name__]
    st_ = inspect(u)
    for attr in _ATTRS:
        out["history:" + attr] = _hist(st_.attrs[attr].history)
    out["dirty"] = u in sess.dirty
    cap = sautil.Capture(eng)
    try:
        try:
            sess.flush()
            out["flush"] = "ok"
        except Exception as e:  # noqa
            out["flush"] = ["exc", type(e).__name__]
        # compared as a multiset of (statement, one parameter set): the INSERT order of unrelated pending objects follows the order in
        # which they entered the session, which is a property of the harness, not of pickling
        out["flush_sql"] = sorted([stmt, repr(p_)] for stmt, params, _many in cap.rows for p_ in (params if isinstance(params, list) else [params]))
    finally:
        cap.close()
    out["after_flush:addresses"] = _val(list(u.addresses)) if out["flush"] == "ok" else None
    return out


def check_orm_twin(case, ctx):
    eng = _fixture(ctx)
    proto = case["proto"]
    classes = {f"proto{proto}", "detach:" + case["detach"]} | {k for k, _ in case["pre"]}
    # --- the twin: same construction, never pickled
    sa = Session(eng, autoflush=False)
    try:
        tu, taux = _twin_build(case, sa)
        twin_fields = _state_fields(tu)
        if case["detach"] == "attached":
            twin_obs = _twin_observe(eng, sa, tu, taux, reattach=True)  # adds only what is in no session (the new Address objects)
        else:
            sa.expunge_all()  # detach WITHOUT expiring (a rollback would expire what is still attached, which pickling does not do)
            sa.rollback()
            sa.close()
            sa = Session(eng, autoflush=False)
            twin_obs = _twin_observe(eng, sa, tu, taux, reattach=True)
    finally:
        sa.rollback()
        sa.close()
    has_pm = bool(twin_fields["pending_mutations"])
    if has_pm:
        classes.add("pending-collection-mutations")
        pm = twin_fields["pending_mutations"].get("addresses", [[], []])
        if pm[0]:
            classes.add("queued-append")
        if pm[1]:
            classes.add("queued-remove")
    if twin_fields["load_options"]:
        classes.add("instance-load-options")
    if twin_fields["committed_state"]:
        classes.add("pending-history")
    nontrivial = has_pm or bool(twin_fields["committed_state"]) or bool(twin_fields["expired_attributes"] and twin_fields["load_options"])
    ctx.note(case, nontrivial, classes=classes)

    # --- the pickled copy
    sb = Session(eng, autoflush=False)
    sc = None
    try:
        u, aux = _twin_build(case, sb)
        before = _state_fields(u)
        if before != twin_fields:
            raise Violation("C51/orm_twin/harness/construction-not-deterministic", f"twin {twin_fields} != second build {before}")
        blob = pickle.dumps((u, aux), proto)
        sb.rollback()
        sb.close()
        u2, aux2 = pickle.loads(blob)
        after = _state_fields(u2)
        for k in before:
            if before[k] != after[k]:
                raise Violation(f"C51/orm_twin/state/{k}", f"InstanceState field {k!r} before pickle {before[k]!r} != after unpickle {after[k]!r}",
                                observed=after[k], expected=before[k])
        sc = Session(eng, autoflush=False)
        obs = _twin_observe(eng, sc, u2, aux2, reattach=True)
        for k in twin_obs:
            if twin_obs[k] != obs[k]:
                what = k.split(":")[0]
                raise Violation(f"C51/orm_twin/behaviour/{what}/{k.split(':')[1] if ':' in k else 'all'}",
                                f"{k}: never-pickled twin gave {twin_obs[k]!r}, unpickled + re-attached copy gave {obs[k]!r} (queued mutations {before['pending_mutations']})",
                                observed=obs[k], expected=twin_obs[k])
    finally:
        sb.rollback()
        sb.close()
        if sc is not None:
            sc.rollback()
            sc.close()


@st.composite
def _orm_twin_cases(draw):
    pre = []
    for _ in range(draw(st.integers(1, 5))):
        k = draw(st.sampled_from(["expire_attr", "expire_all", "touch", "set", "backref_append", "backref_append", "backref_remove", "backref_remove", "backref_move",
                                   "coll_append", "set_keywords"]))
        if k == "expire_attr":
            arg = draw(st.sampled_from(["name", "nick", "bio", "addresses", "addresses", "keywords"]))
        elif k == "touch":
            arg = draw(st.sampled_from(["keywords", "bio", "name", "addresses"]))
        elif k == "set":
            arg = [draw(st.sampled_from(["name", "nick", "bio"])), draw(st.sampled_from(["zz", None, "user3"]))]
        else:
            arg = draw(st.integers(0, 3))
        pre.append([k, arg])
    return {
        "uid": draw(st.integers(2, 4)), "proto": draw(st.integers(2, 5)),
        "opts": draw(st.lists(st.sampled_from(["defer_name", "undefer_bio", "joined_keywords", "lazy_addresses", "defer_addr_email"]), max_size=2, unique=True).filter(
            lambda o: not ("lazy_addresses" in o and "defer_addr_email" in o))),
        "pre": pre, "detach": draw(st.sampled_from(["attached", "expunge", "expunge_all", "expunge_all", "close"])),
    }


# ------------------------------------------------------------------ rows
def _row_stmt(kind, n):
    it, U, A = M.item, M.User, M.Address
    if kind == "core":
        return select(it).where(it.c.id <= n).order_by(it.c.id)
    if kind == "core_labels":
        return select(it.c.id, it.c.label.label("lbl"), (it.c.qty * 2).label("dbl"), func.length(it.c.label)).where(it.c.id <= n).order_by(it.c.id)
    if kind == "orm_entity":
        return select(U).where(U.id <= n).order_by(U.id)
    if kind == "orm_mixed":
        return select(U, A.email, A).join(U.addresses).where(A.id <= 10 * n + 9).order_by(A.id)
    if kind == "orm_cols":
        return select(U.id, U.name, A.email).join(U.addresses).where(U.id <= n).order_by(A.id)
    raise ValueError(kind)


def _rowview(r):
    out = []
    for v in r:
        out.append(_val(v) + [list(inspect(v).key[1])] if isinstance(v, (M.User, M.Address)) else v)
    return out


def check_rows(case, ctx):
    eng = _fixture(ctx)
    proto = case["proto"]
    s = Session(eng)
    try:
        stmt = _row_stmt(case["stmt"], case["n"])
        cont = case["container"]
        res = s.execute(stmt)
        if cont == "frozen":
            fr = res.freeze()
            base = fr().all()
            ctx.note(case, len(base) > 1, classes=[case["stmt"], cont, f"proto{proto}"])
            fr2 = pickle.loads(pickle.dumps(fr, proto))
            a, b = fr2().all(), fr2().all()
            views = [[_rowview(r) for r in x] for x in (base, a, b)]
            if views[0] != views[1] or views[1] != views[2]:
                raise Violation("C51/rows/frozen/replay", f"frozen result rows differ after pickle / between replays: {views}", observed=views[1:], expected=views[0])
            if [r._fields for r in a] != [r._fields for r in base]:
                raise Violation("C51/rows/frozen/fields", "frozen result _fields differ after pickle")
            # and replaying the unpickled original twice still works
            if [_rowview(r) for r in fr().all()] != views[0]:
                raise Violation("C51/rows/frozen/original-consumed", "original FrozenResult no longer replays")
            return
        if cont == "mappings":
            rows = res.mappings().all()
        else:
            rows = res.all()
        ctx.note(case, len(rows) > 1, classes=[case["stmt"], cont, f"proto{proto}"])
        target = rows[0] if cont == "single" and rows else rows
        copy_ = pickle.loads(pickle.dumps(target, proto))
        pairs = [(target, copy_)] if cont == "single" and rows else list(zip(target, copy_))
        if not (cont == "single" and rows) and len(copy_) != len(target):
            raise Violation("C51/rows/count", f"{len(target)} rows pickled, {len(copy_)} unpickled")
        for r, c in pairs:
            if type(r) is not type(c):
                raise Violation("C51/rows/type", f"{type(r).__name__} unpickled as {type(c).__name__}")
            if cont == "mappings":
                if {k: _val(v) for k, v in r.items()} != {k: _val(v) for k, v in c.items()} or list(r.keys()) != list(c.keys()):
                    raise Violation("C51/rows/mapping/contents", f"RowMapping {dict(r)} != {dict(c)}", observed=str(dict(c)), expected=str(dict(r)))
                continue
            if _rowview(r) != _rowview(c):
                raise Violation("C51/rows/values", f"row {_rowview(r)} unpickled as {_rowview(c)}", observed=_rowview(c), expected=_rowview(r))
            if r._fields != c._fields:
                raise Violation("C51/rows/_fields", f"_fields {r._fields} != {c._fields}")
            if case["stmt"].startswith("core") or case["stmt"] == "orm_cols":
                if not (r == c) or hash(r) != hash(c) or (r != c):
                    raise Violation("C51/rows/equality", f"row {r!r} != unpickled {c!r}")
            for k in r._fields:
                if _val(getattr(r, k)) != _val(getattr(c, k)) or _val(r._mapping[k]) != _val(c._mapping[k]):
                    raise Violation("C51/rows/key-access", f"access by key {k!r} differs after pickle")
            if list(r._mapping.keys()) != list(c._mapping.keys()):
                raise Violation("C51/rows/mapping-keys", f"{list(r._mapping.keys())} != {list(c._mapping.keys())}")
    finally:
        s.rollback()
        s.close()


_rows_cases = st.fixed_dictionaries({
    "stmt": st.sampled_from(["core", "core_labels", "orm_entity", "orm_mixed", "orm_cols"]),
    "n": st.integers(0, 8), "container": st.sampled_from(["single", "list", "list", "mappings", "frozen"]), "proto": st.integers(2, 5),
})


# ------------------------------------------------------------------ metadata
_TYPES = {
    "int": lambda: Integer(), "str": lambda: String(30), "num": lambda: Numeric(10, 2), "bool": lambda: Boolean(), "dt": lambda: DateTime(), "text": lambda: Text(),
    "blob": lambda: LargeBinary(), "float": lambda: Float(), "enum": lambda: Enum("a", "b", name="ab"), "enum_cc": lambda: Enum("x", "y", name="xy", create_constraint=True),
    "bool_cc": lambda: Boolean(create_constraint=True, name="ckb"),
}
_NAMING = {"ix": "ix_%(column_0_label)s", "uq": "uq_%(table_name)s_%(column_0_name)s", "ck": "ck_%(table_name)s_%(constraint_name)s",
           "fk": "fk_%(table_name)s_%(column_0_name)s_%(referred_table_name)s", "pk": "pk_%(table_name)s"}


def _build_metadata(spec):
    md = MetaData(naming_convention=_NAMING if spec["naming"] else None)
    made = []
    for ti, t in enumerate(spec["tables"]):
        cols = []
        names = []
        for ci, c in enumerate(t["cols"]):
            name = f"c{ci}"
            names.append(name)
            kw = {}
            if c.get("pk"):
                kw["primary_key"] = True
            if c.get("nullable") is not None and not c.get("pk"):
                kw["nullable"] = c["nullable"]
            if c.get("unique"):
                kw["unique"] = True
            if c.get("index"):
                kw["index"] = True
            if c.get("server_default") is not None:
                kw["server_default"] = str(c["server_default"])
            if c.get("default") is not None:
                kw["default"] = c["default"]
            args = []
            if c.get("fk") is not None and made:
                tgt = made[c["fk"] % len(made)]
                args.append(ForeignKey(f"{tgt.name}.c0", ondelete=c.get("ondelete"), name=None if spec["naming"] else f"fk_{ti}_{ci}"))
                typ = Integer()
            else:
                typ = _TYPES[c["type"]]()
            cols.append(Column(name, typ, *args, **kw))
        if not any(c.get("pk") for c in t["cols"]):
            cols[0].primary_key = True
        extra = []
        if t.get("uq") and len(names) >= 2:
            extra.append(UniqueConstraint(names[0], names[1], name=None if spec["naming"] else f"uq_{ti}"))
        if t.get("ck"):
            extra.append(CheckConstraint("c0 > 0", name=f"ckpos{ti}"))
        tab = Table(f"t{ti}", md, *cols, *extra)
        if t.get("ix") and len(names) >= 2:
            Index(f"ix_t{ti}_multi", tab.c[names[-1]], tab.c[names[0]], unique=bool(t.get("ix_unique")))
        made.append(tab)
    return md


def _ddl(md):
    d = _sqlite.dialect()
    out = {}
    for t in md.tables.values():
        ddl = [str(CreateTable(t).compile(dialect=d))]
        for ix in sorted(t.indexes, key=lambda i: i.name or ""):
            ddl.append(str(CreateIndex(ix).compile(dialect=d)))
        out[t.key] = ddl
    return out


def check_metadata(case, ctx):
    md = _build_metadata(case)
    has_fk = any(t.foreign_keys for t in md.tables.values())
    has_ix = any(t.indexes for t in md.tables.values())
    ctx.note(case, has_fk or has_ix, classes=["fk" if has_fk else "no-fk", "index" if has_ix else "no-index", "naming" if case["naming"] else "no-naming", f"proto{case['proto']}"])
    before = _ddl(md)
    order = [t.key for t in md.sorted_tables]
    md2 = pickle.loads(pickle.dumps(md, case["proto"]))
    after = _ddl(md2)
    if before != after:
        bad = [k for k in before if before[k] != after.get(k)]
        raise Violation("C51/metadata/ddl", f"DDL differs after pickle for {bad}: {[(before[k], after.get(k)) for k in bad[:1]]}", observed=after, expected=before)
    if [t.key for t in md2.sorted_tables] != order:
        raise Violation("C51/metadata/sorted_tables", f"{[t.key for t in md2.sorted_tables]} != {order}")
    for t in md2.tables.values():
        for fk in t.foreign_keys:
            if fk.column.table is not md2.tables[fk.column.table.key] or fk.parent.table is not t:
                raise Violation("C51/metadata/fk-target-identity", f"foreign key {fk} of {t.key} points outside the unpickled MetaData")
        for c in t.c:
            if c.table is not t:
                raise Violation("C51/metadata/column-table", f"column {c} not attached to its unpickled table")
    if md2.naming_convention != md.naming_convention and dict(md2.naming_convention) != dict(md.naming_convention):
        raise Violation("C51/metadata/naming_convention", "naming convention lost")
    # the copy is functional: it creates its schema, and accepts a new table referring to an unpickled one
    eng = sautil.mem_engine()
    try:
        Table("extra", md2, Column("id", Integer, primary_key=True), Column("ref", ForeignKey("t0.c0")))
        md2.create_all(eng)
        got = sorted(inspect(eng).get_table_names())
        if got != sorted(list(before) + ["extra"]):
            raise Violation("C51/metadata/create_all", f"created tables {got}")
    finally:
        eng.dispose()


@st.composite
def _metadata_cases(draw):
    tables = []
    for ti in range(draw(st.integers(1, 4))):
        cols = []
        for ci in range(draw(st.integers(1, 5))):
            c = {"type": draw(st.sampled_from(sorted(_TYPES)))}
            if ci == 0:
                c["type"] = "int"
                c["pk"] = True
            else:
                c["pk"] = draw(st.integers(0, 6)) == 0
                c["nullable"] = draw(st.sampled_from([None, True, False]))
                c["unique"] = draw(st.integers(0, 4)) == 0
                c["index"] = draw(st.integers(0, 3)) == 0
                c["server_default"] = draw(st.sampled_from([None, None, "0", "x"]))
                c["default"] = draw(st.sampled_from([None, None, 5]))
                if ti > 0 and draw(st.integers(0, 1)):
                    c["fk"] = draw(st.integers(0, 3))
                    c["ondelete"] = draw(st.sampled_from([None, "CASCADE", "SET NULL"]))
            cols.append(c)
        tables.append({"cols": cols, "uq": draw(st.booleans()), "ck": draw(st.booleans()), "ix": draw(st.booleans()), "ix_unique": draw(st.booleans())})
    return {"tables": tables, "naming": draw(st.booleans()), "proto": draw(st.integers(2, 5))}


# ------------------------------------------------------------------ ext.serializer
def _pred(p):
    it, U, A = M.item, M.User, M.Address
    col = {"item.qty": it.c.qty, "item.label": it.c.label, "item.id": it.c.id, "user.id": U.id, "user.name": U.name, "addr.email": A.email, "addr.id": A.id,
           "usertable.nick": M.User.__table__.c.nick}[p[0]]
    op, v = p[1], p[2]
    if op == "eq":
        return col == v
    if op == "gt":
        return col > v
    if op == "in":
        return col.in_(v if isinstance(v, list) else [v])
    if op == "like":
        return col.like(f"%{v}%")
    if op == "isnull":
        return col.is_(None)
    if op == "between":
        return col.between(v, (v + 3) if isinstance(v, int) else v)
    raise ValueError(op)


def _int_or_str(colname, v):
    return v if colname in ("item.qty", "item.id", "user.id", "addr.id") else f"user{v}" if colname == "user.name" else f"L{v % 3}" if colname == "item.label" else f"n{v % 2}" if colname.endswith("nick") else f"u{v}"


def _build_stmt(spec, session):
    it, U, A = M.item, M.User, M.Address
    preds = []
    for p in spec["preds"]:
        v = p[2]
        if p[1] == "in":
            v = [_int_or_str(p[0], x) for x in (v if isinstance(v, list) else [v])]
        elif p[1] != "isnull":
            v = _int_or_str(p[0], v if isinstance(v, int) else 0)
        preds.append(_pred([p[0], p[1], v]))
    pcols = {p[0].split(".")[0] for p in spec["preds"]}
    frm = spec["from"]
    if frm == "core":
        stmt = select(it.c.id, it.c.label, it.c.qty).order_by(it.c.id)
        allowed = {"item"}
    elif frm == "core_join_table":
        ut = U.__table__
        stmt = select(it.c.id, ut.c.name).select_from(it.join(ut, it.c.user_id == ut.c.id)).order_by(it.c.id)
        allowed = {"item", "usertable"}
    elif frm == "orm":
        stmt = select(U).order_by(U.id)
        allowed = {"user"}
    elif frm == "orm_join":
        stmt = select(U.id, U.name, A.email).join(U.addresses).order_by(A.id)
        allowed = {"user", "addr"}
    elif frm == "orm_core_join":
        stmt = select(U.name, it.c.label, it.c.qty).join_from(U, it, U.id == it.c.user_id).order_by(it.c.id)
        allowed = {"user", "item"}
    elif frm == "group":
        stmt = select(it.c.label, func.count(it.c.id).label("n"), func.sum(it.c.qty)).group_by(it.c.label).order_by(it.c.label)
        allowed = {"item"}
    elif frm.startswith("alias_"):
        # aliased() entities: their AliasedInsp is pickled by value (__getstate__/__setstate__), every constructor flag must survive
        ut = U.__table__
        form = frm[6:]
        if form == "plain":
            UA = aliased(U)
        elif form == "named":
            UA = aliased(U, name="ua")
        elif form == "subquery":
            UA = aliased(U, select(ut).where(ut.c.id > spec["k"] % 3).subquery("usq"))
        elif form == "archive_names":
            UA = aliased(U, M.user_archive, adapt_on_names=True)
        elif form == "archive_sub_names":
            UA = aliased(U, select(M.user_archive).where(M.user_archive.c.id > 100 + spec["k"] % 3).subquery("asq"), adapt_on_names=True)
        elif form == "flat_join":
            UA = aliased(U, ut.join(M.Address.__table__, isouter=True), flat=True)
        else:
            raise ValueError(form)
        if spec["extra"] == "pair":
            stmt = select(U.id, UA).join_from(U, UA, U.nick == UA.nick).order_by(U.id, UA.id)
        elif spec["extra"] == "cols":
            stmt = select(UA.id, UA.name, UA.nick).order_by(UA.id)
        else:
            stmt = select(UA).order_by(UA.id)
        if spec["preds"]:
            stmt = stmt.where(UA.id > spec["k"] % 4) if spec["comb"] != "not" else stmt.where(not_(UA.name == f"user{spec['k'] % 3}"))
        return stmt, "stmt"
    else:
        raise ValueError(frm)
    use = [pr for pr, p in zip(preds, spec["preds"]) if p[0].split(".")[0] in allowed]
    if use:
        comb = spec["comb"]
        stmt = stmt.where(and_(*use) if comb == "and" else or_(*use) if comb == "or" else not_(and_(*use)))
    extra = spec["extra"]
    if extra == "exists" and frm in ("orm", "orm_join"):
        stmt = stmt.where(exists().where(it.c.user_id == U.id, it.c.qty > spec["k"]))
    elif extra == "subquery" and frm == "core":
        sq = select(it.c.user_id, func.max(it.c.qty).label("mx")).group_by(it.c.user_id).subquery("sq")
        stmt = select(sq.c.user_id, sq.c.mx).where(sq.c.mx > spec["k"]).order_by(sq.c.user_id)
    elif extra == "union" and frm == "core":
        stmt = union_all(select(it.c.id, it.c.label).where(it.c.qty > spec["k"]), select(it.c.id, it.c.label).where(it.c.id == literal(spec["k"]))).order_by("id")
    elif extra == "case" and frm in ("core", "group"):
        stmt = stmt.add_columns(case((it.c.qty > spec["k"], "big"), else_="small").label("size") if frm == "core" else cast(func.min(it.c.qty), String).label("mn"))
    elif extra == "limit":
        stmt = stmt.limit(spec["k"] + 1).offset(1)
    elif extra == "arith" and "item" in allowed:
        stmt = stmt.where((it.c.qty * 2) > spec["k"])  # a pickled (non-Column) expression whose comparator was used before serialisation
    if spec["as_query"] and frm in ("orm", "orm_join"):
        q = session.query(U) if frm == "orm" else session.query(U.id, A.email).join(U.addresses)
        if use:
            q = q.filter(*use)
        return q.order_by(U.id if frm == "orm" else A.id), "query"
    return stmt, "stmt"


def check_serializer(case, ctx):
    if case.get("pinned") and case.get("odd"):
        return check_serializer_odd(case, ctx)
    eng = _fixture(ctx)
    SS = scoped_session(sessionmaker(eng))
    try:
        sess = SS()
        stmt, kind = _build_stmt(case, sess)
        has_bind = bool(case["preds"]) or case["extra"] in ("exists", "subquery", "union", "case", "limit", "arith")
        has_entity = case["from"].startswith(("orm", "alias_"))
        has_table = case["from"] in ("core", "core_join_table", "orm_core_join", "group") or case["extra"] == "exists" or case["from"].startswith("alias_")
        ctx.note(case, has_bind and has_entity and has_table, classes=[case["from"], case["extra"], kind, f"proto{case['proto']}", "bind" if has_bind else "nobind"])
        table_alias = case["from"] in ("alias_archive_names", "alias_flat_join")
        if table_alias and not case.get("pinned"):
            # known finding: the Table / Join an aliased() entity is built on carries a "parententity" annotation, which the Serializer
            # encodes as the *mapper's* selectable (and its columns as the base table's columns).  Not generated; pinned replays exercise it.
            ctx.exclude("aliased() entity over a plain Table / flat Join under ext.serializer (known finding)")
            return
        blob = serializer.dumps(stmt, case["proto"])
        st2 = serializer.loads(blob, M.metadata, SS, eng)
        if kind == "query":
            c1, c2 = stmt.statement.compile(eng), st2.statement.compile(eng)
        else:
            c1, c2 = stmt.compile(eng), st2.compile(eng)
        if str(c1) != str(c2) and table_alias:
            raise Violation("C51/serializer/aliased-entity-on-table-selectable/" + ("table" if case["from"] == "alias_archive_names" else "flat-join"), f"aliased() entity over a Table/Join: SQL differs after round trip:\n{c1}\n---\n{c2}",
                            observed=str(c2), expected=str(c1))
        if str(c1) != str(c2):
            raise Violation("C51/serializer/sql-text", f"SQL differs after round trip:\n{c1}\n---\n{c2}", observed=str(c2), expected=str(c1))
        if c1.params != c2.params:
            raise Violation("C51/serializer/params", f"params {c1.params} != {c2.params}", observed=str(c2.params), expected=str(c1.params))
        if kind == "query":
            r1 = [_rowview(r) if not isinstance(r, M.User) else _val(r) for r in stmt.all()]
            if st2.session is not sess:
                raise Violation("C51/serializer/query-session", "deserialised Query is not bound to the scoped session's Session")
            r2 = [_rowview(r) if not isinstance(r, M.User) else _val(r) for r in st2.all()]
        else:
            r1 = [_rowview(r) for r in sess.execute(stmt).unique().all()]
            r2 = [_rowview(r) for r in sess.execute(st2).unique().all()]
        if r1 != r2:
            raise Violation("C51/serializer/rows", f"rows differ after round trip: {r1[:3]} vs {r2[:3]}", observed=r2, expected=r1)
        # the deserialised statement must remain composable: build further on one of its own sub-expressions
        if kind == "stmt" and case["extra"] == "arith" and case["from"] in ("core", "orm_core_join", "group", "core_join_table"):
            def arith_left(st_):
                w = st_.whereclause
                last = w.clauses[-1] if hasattr(w, "clauses") else w
                return last.left
            g1 = str(stmt.where(arith_left(stmt) < 100).compile(eng))
            g2 = str(st2.where(arith_left(st2) < 100).compile(eng))
            if g1 != g2:
                raise Violation("C51/serializer/compose-after-load/sql-text", f"{g1}\n---\n{g2}")
            if not case.get("pinned"):
                # known finding (shared root cause with C03/pickle/comparator-type-lost): arithmetic on an unpickled expression whose
                # comparator had been memoized raises AttributeError.  Not generated; the pinned replay exercises it.
                ctx.exclude("arithmetic operator on an unpickled expression with memoized comparator (known finding)")
            else:
                try:
                    e2 = str(arith_left(st2) + 1)
                except AttributeError as e:
                    raise Violation("C51/serializer/compose-after-load/comparator-type-lost", f"(deserialised expression) + 1 raised AttributeError: {e}",
                                    observed=f"AttributeError: {e}", expected=str(arith_left(stmt) + 1))
                if e2 != str(arith_left(stmt) + 1):
                    raise Violation("C51/serializer/compose-after-load/sql-text", f"{e2} != {arith_left(stmt) + 1}")
    finally:
        SS.remove()


def check_serializer_odd(case, ctx):
    """identifiers containing the ':' separator of the serializer's persistent ids (pinned known finding only)"""
    eng = _fixture(ctx)
    ctx.note(case, True, classes=["colon-identifier"])
    stmt = select(M.odd.c["a:b"]) if case["odd"] == "column" else select(M.odd.c.id)
    try:
        st2 = serializer.loads(serializer.dumps(stmt), M.metadata, None, eng)
    except ValueError as e:
        raise Violation("C51/serializer/colon-in-identifier", f"statement over table 'pk:odd' / column key 'a:b' cannot be deserialised: ValueError {e}",
                        observed=f"ValueError: {e}", expected="round trip")
    if str(st2) != str(stmt):
        raise Violation("C51/serializer/colon-in-identifier", "SQL differs")


_pcol = st.sampled_from(["item.qty", "item.label", "item.id", "user.id", "user.name", "addr.email", "addr.id", "usertable.nick"])
_pred_st = st.tuples(_pcol, st.sampled_from(["eq", "gt", "in", "like", "isnull", "between"]), st.one_of(st.integers(0, 9), st.lists(st.integers(0, 9), max_size=3))).map(list)


@st.composite
def _serializer_cases(draw):
    frm = draw(st.sampled_from(["core", "core_join_table", "orm", "orm", "orm_join", "orm_join", "orm_core_join", "orm_core_join", "orm_core_join", "group",
                                "alias_plain", "alias_named", "alias_subquery", "alias_archive_names", "alias_archive_sub_names", "alias_flat_join"]))
    if frm.startswith("alias_"):
        extra = draw(st.sampled_from(["none", "pair", "cols"]))
    elif frm in ("orm", "orm_join"):
        extra = draw(st.sampled_from(["none", "exists", "exists", "exists", "limit"]))
    elif frm == "core":
        extra = draw(st.sampled_from(["none", "subquery", "union", "case", "limit", "arith"]))
    else:
        extra = draw(st.sampled_from(["none", "case", "limit", "arith", "arith"]))
    return {"from": frm, "preds": draw(st.lists(_pred_st, max_size=3)), "comb": draw(st.sampled_from(["and", "or", "not"])), "extra": extra,
            "k": draw(st.integers(0, 9)), "as_query": draw(st.integers(0, 3)) == 0, "proto": draw(st.integers(2, 5))}


def subs(tier):
    return [
        Generated("orm", check_orm, strategy=_orm_cases(), quick=300, thorough=20000),
        Generated("orm_twin", check_orm_twin, strategy=_orm_twin_cases(), quick=300, thorough=20000),
        Generated("rows", check_rows, strategy=_rows_cases, quick=100, thorough=4000),
        Generated("metadata", check_metadata, strategy=_metadata_cases(), quick=100, thorough=8000),
        Generated("serializer", check_serializer, strategy=_serializer_cases(), quick=200, thorough=12000),
    ]
