"""C54 - utility collections conform to their reference models.

Programs-as-data over OrderedSet, IdentitySet, immutabledict and LRUCache; each
op is applied to the real object and to a plain-Python reference model.
"""
from __future__ import annotations

import pickle

from hypothesis import strategies as st

from vf.api import Enumerated, Generated, Violation

PROPERTY = "C54"
LEVEL = "exploration"
RULE = (
    "op programs (<=30 ops) over OrderedSet / IdentitySet / immutabledict / LRUCache with arguments of every accepted kind "
    "(set, frozenset, list with duplicates, tuple, generator, dict keys view, OrderedSet/IdentitySet, self); plus exhaustive "
    "(OrderedSet over subsets-in-order of {1,2,3}) x (binary op) x (argument lists of length <=3). Non-trivial: a binary/in-place "
    "operator receives a non-set argument with duplicates or an iterator, or an LRU prune happens, or a mutator is attempted on "
    "immutabledict after a merge; distinct = canonical JSON of the program"
)
ASSUMPTIONS = [
    "operator forms (| & - ^ and in-place) are only applied to set-like right operands (the annotated AbstractSet domain); method forms take any iterable",
    "IdentitySet iteration order is unspecified: compared as identity sets",
    "OrderedSet binary-op order = left operand's order then new elements in argument iteration order",
    "confirmed findings OrderedSet.symmetric_difference_update(dup non-set iterable) and IdentitySet.__ixor__ are excluded from generation and pinned as replays",
]

ARG_KINDS = ["list", "tuple", "set", "frozenset", "gen", "dictkeys", "oset", "self"]


# ------------------------------------------------------------------ OrderedSet
def _mk_arg(kind, vals, OrderedSet, current):
    if kind == "list":
        return list(vals)
    if kind == "tuple":
        return tuple(vals)
    if kind == "set":
        return set(vals)
    if kind == "frozenset":
        return frozenset(vals)
    if kind == "gen":
        return (v for v in list(vals))
    if kind == "dictkeys":
        return dict.fromkeys(vals).keys()
    if kind == "oset":
        return OrderedSet(vals)
    if kind == "self":
        return current
    raise ValueError(kind)


def _arg_order(kind, vals, model):
    """iteration order of the argument as the implementation will see it"""
    if kind in ("list", "tuple", "gen"):
        return list(vals)
    if kind == "set":
        return list(set(vals))
    if kind == "frozenset":
        return list(frozenset(vals))
    if kind in ("dictkeys", "oset"):
        return list(dict.fromkeys(vals))
    if kind == "self":
        return list(model)
    raise ValueError(kind)


SETLIKE = ("set", "frozenset", "oset", "self")

OS_UNARY = ["add", "remove", "discard", "insert", "contains", "getitem"]
OS_NOARG = ["pop", "clear", "copy", "len", "iter", "repr"]
OS_MULTI = ["update", "union", "intersection", "difference", "intersection_update", "difference_update"]
OS_SINGLE = ["symmetric_difference", "symmetric_difference_update", "issubset", "issuperset", "init"]
OS_OPER = ["or", "and", "sub", "xor", "add_op", "ior", "iand", "isub", "ixor", "le", "lt", "ge", "gt", "eq"]


def _model_apply_os(m, op, args_orders, x, pos):
    """m: list (ordered, unique). returns (kind, value) result of op on the model"""
    s = set(m)
    if op == "add":
        if x not in s:
            m.append(x)
        return ("ret", None)
    if op == "remove":
        if x not in s:
            return ("exc", "KeyError")
        m.remove(x)
        return ("ret", None)
    if op == "discard":
        if x in s:
            m.remove(x)
        return ("ret", None)
    if op == "insert":
        if x not in s:
            m.insert(pos, x)
        return ("ret", None)
    if op == "contains":
        return ("ret", x in s)
    if op == "getitem":
        try:
            return ("ret", m[pos])
        except IndexError:
            return ("exc", "IndexError")
    if op == "pop":
        if not m:
            return ("exc", "KeyError")
        return ("ret", m.pop())
    if op == "clear":
        del m[:]
        return ("ret", None)
    if op == "copy":
        return ("oset", list(m))
    if op == "len":
        return ("ret", len(m))
    if op == "iter":
        return ("ret", list(m))
    if op == "repr":
        return ("ret", "OrderedSet(%r)" % (m,))
    if op in ("update", "ior"):
        for order in args_orders:
            for e in order:
                if e not in m:
                    m.append(e)
        return ("ret", None) if op == "update" else ("self", None)
    if op in ("union", "or", "add_op"):
        r = list(m)
        for order in args_orders:
            for e in order:
                if e not in r:
                    r.append(e)
        return ("oset", r)
    if op in ("intersection", "and"):
        r = [e for e in m if all(e in o for o in args_orders)]
        return ("oset", r)
    if op in ("difference", "sub"):
        r = [e for e in m if not any(e in o for o in args_orders)]
        return ("oset", r)
    if op in ("intersection_update", "iand"):
        m[:] = [e for e in m if all(e in o for o in args_orders)]
        return ("ret", None) if op == "intersection_update" else ("self", None)
    if op in ("difference_update", "isub"):
        m[:] = [e for e in m if not any(e in o for o in args_orders)]
        return ("ret", None) if op == "difference_update" else ("self", None)
    if op in ("symmetric_difference", "xor", "symmetric_difference_update", "ixor"):
        o = args_orders[0]
        r = [e for e in m if e not in o]
        for e in o:
            if e not in s and e not in r:
                r.append(e)
        if op in ("symmetric_difference", "xor"):
            return ("oset", r)
        m[:] = r
        return ("ret", None) if op == "symmetric_difference_update" else ("self", None)
    if op == "issubset":
        return ("ret", s <= set(args_orders[0]))
    if op == "issuperset":
        return ("ret", s >= set(args_orders[0]))
    if op == "eq":
        return ("ret", s == set(args_orders[0]))
    if op == "le":
        return ("ret", s <= set(args_orders[0]))
    if op == "lt":
        return ("ret", s < set(args_orders[0]))
    if op == "ge":
        return ("ret", s >= set(args_orders[0]))
    if op == "gt":
        return ("ret", s > set(args_orders[0]))
    raise ValueError(op)


def _real_apply_os(o, op, args, x, pos):
    import operator as _op

    if op == "add":
        return o, o.add(x)
    if op == "remove":
        return o, o.remove(x)
    if op == "discard":
        return o, o.discard(x)
    if op == "insert":
        return o, o.insert(pos, x)
    if op == "contains":
        return o, x in o
    if op == "getitem":
        return o, o[pos]
    if op == "pop":
        return o, o.pop()
    if op == "clear":
        return o, o.clear()
    if op == "copy":
        return o, o.copy()
    if op == "len":
        return o, len(o)
    if op == "iter":
        return o, list(iter(o))
    if op == "repr":
        return o, repr(o)
    if op in OS_MULTI:
        return o, getattr(o, op)(*args)
    if op in ("symmetric_difference", "symmetric_difference_update", "issubset", "issuperset"):
        return o, getattr(o, op)(args[0])
    if op == "eq":
        return o, o == args[0]
    binops = {"or": _op.or_, "and": _op.and_, "sub": _op.sub, "xor": _op.xor, "add_op": _op.add, "le": _op.le, "lt": _op.lt, "ge": _op.ge, "gt": _op.gt}
    if op in binops:
        return o, binops[op](o, args[0])
    iops = {"ior": _op.ior, "iand": _op.iand, "isub": _op.isub, "ixor": _op.ixor}
    if op in iops:
        r = iops[op](o, args[0])
        return r, r
    raise ValueError(op)


def _os_invariant(o, m, where, case_op):
    from sqlalchemy.util import OrderedSet

    lst = list(o)
    inner = list(getattr(o, "_list", lst))  # cdef attribute is not visible in the compiled build
    memb = sorted(set.__iter__(o)) if all(isinstance(e, int) for e in set.__iter__(o)) else None
    if len(inner) != len(set(inner)):
        sig = "C54/OrderedSet/duplicates-in-list"
        if case_op and case_op[0] in ("symmetric_difference_update", "ixor"):
            sig = "C54/OrderedSet.symmetric_difference_update/dup-iterable"
        raise Violation(sig, f"{where}: _list has duplicates {inner} (model {m})", observed=inner, expected=m)
    if lst != m:
        raise Violation(f"C54/OrderedSet/{case_op[0] if case_op else 'init'}/contents", f"{where}: iteration {lst} != model {m}", observed=lst, expected=m)
    if memb is not None and memb != sorted(m):
        raise Violation(f"C54/OrderedSet/{case_op[0] if case_op else 'init'}/set-part", f"{where}: set members {memb} != model {sorted(m)}", observed=memb, expected=sorted(m))
    if not isinstance(o, OrderedSet):
        raise Violation("C54/OrderedSet/type", f"{where}: result type {type(o)}")


def check_oset(case, ctx):
    from sqlalchemy.util import OrderedSet

    init = list(case["init"])
    o = OrderedSet(init)
    m = list(dict.fromkeys(init))
    nontrivial = False
    classes = set()
    _os_invariant(o, m, "after init", None)
    pinned = case.get("pinned", False)
    for step, opd in enumerate(case["ops"]):
        op = opd[0]
        x = opd[1] if len(opd) > 1 else 0
        pos = opd[2] if len(opd) > 2 else 0
        argspecs = [tuple(a) for a in (opd[3] if len(opd) > 3 else [])]
        if op in OS_SINGLE or op in OS_OPER:
            argspecs = argspecs[:1] or [("list", [])]
        if op in OS_OPER:
            argspecs = [(k if k in SETLIKE else "oset", v) for k, v in argspecs]
        if op in ("symmetric_difference_update",) and not pinned:
            k, v = argspecs[0]
            if k in ("list", "tuple", "gen") and len(set(v)) != len(v):
                ctx.exclude("OrderedSet.symmetric_difference_update with duplicate-carrying non-set iterable (known finding)")
                argspecs = [(k, list(dict.fromkeys(v)))]
        args_orders = [_arg_order(k, v, m) for k, v in argspecs]
        args = [_mk_arg(k, v, OrderedSet, o) for k, v in argspecs]
        for k, v in argspecs:
            if op not in OS_UNARY and op not in OS_NOARG:
                if (k in ("list", "tuple") and len(set(v)) != len(v)) or k in ("gen", "dictkeys"):
                    nontrivial = True
                    classes.add("nonset-arg")
                if k == "self":
                    classes.add("self-arg")
        classes.add(op)
        before = list(m)
        exp = _model_apply_os(m, op, args_orders, x, pos)
        where = f"step {step} {op}"
        try:
            o2, got = _real_apply_os(o, op, args, x, pos)
            gk = "ret"
        except (KeyError, IndexError, TypeError, ValueError) as e:
            o2, got, gk = o, type(e).__name__, "exc"
        if exp[0] == "exc":
            if gk != "exc" or got != exp[1]:
                raise Violation(f"C54/OrderedSet/{op}/exception", f"{where} on {before}: expected {exp[1]}, got {gk} {got!r}", observed=str(got), expected=exp[1])
        elif gk == "exc":
            raise Violation(f"C54/OrderedSet/{op}/exception", f"{where} on {before}: unexpected {got}", observed=got, expected=str(exp))
        elif exp[0] == "ret":
            if got != exp[1]:
                raise Violation(f"C54/OrderedSet/{op}/return", f"{where} on {before}: returned {got!r}, model {exp[1]!r}", observed=repr(got), expected=repr(exp[1]))
        elif exp[0] == "oset":
            _os_invariant(got, exp[1], where + " (result)", opd)
            if got is o:
                raise Violation(f"C54/OrderedSet/{op}/aliases-self", f"{where}: non-mutating op returned self")
            # the result must be independent from the source
            got.add(99)
            if 99 in o:
                raise Violation(f"C54/OrderedSet/{op}/aliases-self", f"{where}: result shares storage with source")
        elif exp[0] == "self":
            if o2 is not o:
                raise Violation(f"C54/OrderedSet/{op}/inplace-identity", f"{where}: in-place operator returned a different object")
        o = o2
        _os_invariant(o, m, where, opd)
    ctx.note(case, nontrivial, classes=classes)


_small = st.integers(0, 6)
_vals = st.lists(_small, max_size=5)
_argspec = st.tuples(st.sampled_from(ARG_KINDS), _vals)


@st.composite
def _oset_programs(draw):
    init = draw(_vals)
    n = draw(st.integers(1, 30))
    ops = []
    for _ in range(n):
        grp = draw(st.sampled_from(["unary", "noarg", "multi", "single", "oper", "multi", "single", "oper"]))
        if grp == "unary":
            ops.append([draw(st.sampled_from(OS_UNARY)), draw(_small), draw(st.integers(-8, 8))])
        elif grp == "noarg":
            ops.append([draw(st.sampled_from(OS_NOARG))])
        elif grp == "multi":
            ops.append([draw(st.sampled_from(OS_MULTI)), 0, 0, draw(st.lists(_argspec, min_size=0, max_size=3))])
        elif grp == "single":
            ops.append([draw(st.sampled_from(OS_SINGLE[:-1])), 0, 0, [draw(_argspec)]])
        else:
            ops.append([draw(st.sampled_from(OS_OPER)), 0, 0, [draw(_argspec)]])
    return {"init": init, "ops": ops}


def _exh_oset_cases(tier):
    import itertools

    elems = [1, 2, 3]
    lefts = [[]]
    for r in (1, 2, 3):
        lefts += [list(p) for p in itertools.permutations(elems, r)]
    argvals = [[]]
    maxlen = 3
    for r in range(1, maxlen + 1):
        argvals += [list(p) for p in itertools.product([1, 2, 3, 4], repeat=r)]
    ops = ["update", "union", "intersection", "difference", "intersection_update", "difference_update", "symmetric_difference", "symmetric_difference_update"]
    kinds = ["list", "gen", "set", "oset"] if tier == "quick" else ARG_KINDS[:-1]
    for left in lefts:
        for op in ops:
            for kind in kinds:
                for av in argvals:
                    yield {"init": left, "ops": [[op, 0, 0, [[kind, av]]], ["iter"]]}


# ------------------------------------------------------------------ IdentitySet
class _AllEq:
    def __init__(self, i):
        self.i = i

    def __eq__(self, other):
        return True

    def __hash__(self):
        return 1

    def __repr__(self):
        return f"E{self.i}"


class _Unhash(list):
    def __repr__(self):
        return f"U{id(self) % 1000}"


class _Plain:
    def __init__(self, i):
        self.i = i

    def __repr__(self):
        return f"P{self.i}"


def _pool():
    return [_Plain(0), _Plain(1), _AllEq(2), _AllEq(3), _Unhash([4]), _Unhash([4]), _AllEq(6)]


IS_ELEM = ["add", "remove", "discard", "contains"]
IS_NOARG = ["pop", "clear", "copy", "len", "iter", "copy_mod"]
IS_ITER = ["union", "update", "difference", "difference_update", "intersection", "intersection_update", "symmetric_difference",
           "symmetric_difference_update", "issubset", "issuperset"]
IS_OPER = ["or", "and", "sub", "xor", "ior", "iand", "isub", "eq", "ne", "le", "lt", "ge", "gt"]  # ixor: known finding, pinned only


def check_iset(case, ctx):
    import operator as _op

    from sqlalchemy.util import IdentitySet

    pool = _pool()
    ids = lambda it: sorted(pool.index(x) if any(x is p for p in pool) else -1 for x in it)  # noqa

    def idx(x):
        for i, p in enumerate(pool):
            if p is x:
                return i
        return -1

    s = IdentitySet([pool[i] for i in case["init"]])
    m = set(case["init"])
    nontrivial = False
    classes = set()
    for step, opd in enumerate(case["ops"]):
        op = opd[0]
        i = opd[1] if len(opd) > 1 else 0
        kind, vals = (opd[2] if len(opd) > 2 else ("list", []))
        vals = list(vals)
        where = f"step {step} {op}"
        classes.add(op)
        exp_exc = None
        exp_ret = "skip"
        newm = None  # model of a returned new set
        if op == "add":
            m.add(i)
            exp_ret = None
        elif op == "remove":
            if i in m:
                m.remove(i)
                exp_ret = None
            else:
                exp_exc = "KeyError"
        elif op == "discard":
            m.discard(i)
            exp_ret = None
        elif op == "contains":
            exp_ret = i in m
        elif op == "pop":
            if not m:
                exp_exc = "KeyError"
        elif op == "clear":
            m.clear()
            exp_ret = None
        elif op == "len":
            exp_ret = len(m)
        # build argument
        arg = None
        if op in IS_ITER or op in IS_OPER or op == "ixor":
            objs = [pool[v] for v in vals]
            if op in IS_OPER or op == "ixor" or kind == "iset":
                arg = IdentitySet(objs)
            elif kind == "gen":
                arg = (o for o in objs)
                nontrivial = True
            elif kind == "tuple":
                arg = tuple(objs)
            elif kind == "self":
                arg = s
                vals = list(m)
            else:
                arg = list(objs)
                if len(set(vals)) != len(vals):
                    nontrivial = True
            if any(v in (2, 3, 4, 5, 6) for v in vals) or any(v in (2, 3, 4, 5, 6) for v in m):
                nontrivial = True
                classes.add("hostile-eq-or-unhashable")
        a = set(vals)
        try:
            if op == "add":
                got = s.add(pool[i])
            elif op == "remove":
                got = s.remove(pool[i])
            elif op == "discard":
                got = s.discard(pool[i])
            elif op == "contains":
                got = pool[i] in s
            elif op == "pop":
                got = s.pop()
            elif op == "clear":
                got = s.clear()
            elif op == "len":
                got = len(s)
            elif op == "iter":
                got = list(s)
            elif op in ("copy", "copy_mod"):
                got = s.copy()
            elif op in IS_ITER:
                got = getattr(s, op)(arg)
            else:
                f = {"or": _op.or_, "and": _op.and_, "sub": _op.sub, "xor": _op.xor, "ior": _op.ior, "iand": _op.iand, "isub": _op.isub,
                     "ixor": _op.ixor, "eq": _op.eq, "ne": _op.ne, "le": _op.le, "lt": _op.lt, "ge": _op.ge, "gt": _op.gt}[op]
                got = f(s, arg)
            gexc = None
        except (KeyError, TypeError) as e:
            got, gexc = None, type(e).__name__
        if exp_exc or gexc:
            if exp_exc != gexc:
                raise Violation(f"C54/IdentitySet/{op}/exception", f"{where}: expected {exp_exc}, got {gexc}", observed=gexc, expected=exp_exc)
            continue
        if op == "pop":
            gi = idx(got)
            if gi not in m:
                raise Violation("C54/IdentitySet/pop/not-a-member", f"{where}: popped {got!r} not in model {sorted(m)}")
            m.remove(gi)
        elif op == "iter":
            if sorted(idx(x) for x in got) != sorted(m):
                raise Violation("C54/IdentitySet/iter/contents", f"{where}: {got} vs {sorted(m)}")
        elif op in ("copy", "copy_mod"):
            newm = set(m)
        elif op in ("union", "or"):
            newm = m | a
        elif op in ("difference", "sub"):
            newm = m - a
        elif op in ("intersection", "and"):
            newm = m & a
        elif op in ("symmetric_difference", "xor"):
            newm = m ^ a
        elif op in ("update", "ior"):
            m |= a
        elif op in ("difference_update", "isub"):
            m -= a
        elif op in ("intersection_update", "iand"):
            m &= a
        elif op in ("symmetric_difference_update", "ixor"):
            m ^= a
        elif op == "issubset":
            exp_ret = m <= a
        elif op == "issuperset":
            exp_ret = m >= a
        elif op == "eq":
            exp_ret = m == a
        elif op == "ne":
            exp_ret = m != a
        elif op == "le":
            exp_ret = m <= a
        elif op == "lt":
            exp_ret = m < a
        elif op == "ge":
            exp_ret = m >= a
        elif op == "gt":
            exp_ret = m > a
        if op in ("ior", "iand", "isub", "ixor"):
            if got is not s:
                raise Violation(f"C54/IdentitySet/{op}/inplace-identity", f"{where}: in-place operator returned a different object")
        elif op in ("update", "difference_update", "intersection_update", "symmetric_difference_update"):
            if got is not None:
                raise Violation(f"C54/IdentitySet/{op}/return", f"{where}: returned {got!r}")
        if exp_ret != "skip" and got != exp_ret and op not in ("pop", "iter"):
            raise Violation(f"C54/IdentitySet/{op}/return", f"{where}: returned {got!r}, model {exp_ret!r} (set {sorted(m)}, arg {vals})", observed=repr(got), expected=repr(exp_ret))
        if newm is not None:
            if not isinstance(got, IdentitySet) or got is s:
                raise Violation(f"C54/IdentitySet/{op}/result-type", f"{where}: result {got!r}")
            gi = sorted(idx(x) for x in got)
            if gi != sorted(newm) or len(got) != len(newm):
                raise Violation(f"C54/IdentitySet/{op}/result", f"{where}: result {gi} vs model {sorted(newm)} (set {sorted(m)}, arg {vals})", observed=gi, expected=sorted(newm))
            if op == "copy_mod":
                got.add(pool[0])
                got.discard(pool[1])
        cur = sorted(idx(x) for x in s)
        if cur != sorted(m) or len(s) != len(m):
            sig = f"C54/IdentitySet/{op}/contents"
            if op == "ixor":
                sig = "C54/IdentitySet.__ixor__/no-op"
            raise Violation(sig, f"{where}: contents {cur} vs model {sorted(m)} (arg {vals})", observed=cur, expected=sorted(m))
        for j, p in enumerate(pool):
            if (p in s) != (j in m):
                raise Violation(f"C54/IdentitySet/{op}/membership", f"{where}: pool[{j}] in s = {p in s}, model {j in m}")
    ctx.note(case, nontrivial, classes=classes)


_pi = st.integers(0, 6)
_ivals = st.lists(_pi, max_size=5)


@st.composite
def _iset_programs(draw):
    init = draw(_ivals)
    ops = []
    for _ in range(draw(st.integers(1, 30))):
        grp = draw(st.sampled_from(["elem", "noarg", "iter", "iter", "oper", "oper"]))
        if grp == "elem":
            ops.append([draw(st.sampled_from(IS_ELEM)), draw(_pi)])
        elif grp == "noarg":
            ops.append([draw(st.sampled_from(IS_NOARG))])
        elif grp == "iter":
            ops.append([draw(st.sampled_from(IS_ITER)), 0, [draw(st.sampled_from(["list", "tuple", "gen", "iset", "self"])), draw(_ivals)]])
        else:
            ops.append([draw(st.sampled_from(IS_OPER)), 0, ["iset", draw(_ivals)]])
    return {"init": init, "ops": ops}


# ------------------------------------------------------------------ immutabledict
ID_MUT = ["setitem", "delitem", "clear", "pop", "popitem", "setdefault", "update", "ior", "setattr"]


def _mk_map(kind, items, immutabledict):
    d = {k: v for k, v in items}
    if kind == "none":
        return None
    if kind == "dict":
        return d
    if kind == "imm":
        return immutabledict(d)
    if kind == "mapping":
        import types

        return types.MappingProxyType(d)
    if kind == "empty_imm":
        return immutabledict()
    raise ValueError(kind)


def check_idict(case, ctx):
    from sqlalchemy.util import immutabledict

    base = {k: v for k, v in case["init"]}
    d = immutabledict(base)
    m = dict(base)
    nontrivial = False
    classes = set()
    merged = False
    for step, opd in enumerate(case["ops"]):
        op = opd[0]
        where = f"step {step} {op}"
        classes.add(op)
        if op in ID_MUT:
            k, v = opd[1], opd[2]
            try:
                if op == "setitem":
                    d[k] = v
                elif op == "delitem":
                    del d[k]
                elif op == "clear":
                    d.clear()
                elif op == "pop":
                    d.pop(k)
                elif op == "popitem":
                    d.popitem()
                elif op == "setdefault":
                    d.setdefault(k, v)
                elif op == "update":
                    d.update({k: v})
                elif op == "ior":
                    d |= {k: v}
                elif op == "setattr":
                    d.foo = v
                raise Violation(f"C54/immutabledict/{op}/mutator-did-not-raise", f"{where}: no error")
            except TypeError:
                pass
            except (KeyError, AttributeError) as e:
                raise Violation(f"C54/immutabledict/{op}/wrong-exception", f"{where}: raised {type(e).__name__}, TypeError expected")
            if merged:
                nontrivial = True
        elif op in ("union", "merge_with", "or", "ror"):
            specs = opd[1]
            if op in ("or", "ror"):
                # PEP 584 operator domain: dict operands only (dict | non-dict Mapping is a TypeError for dict itself)
                specs = [s for s in specs if s[0] in ("dict", "imm", "empty_imm")][:1] or [["dict", []]]
            args = [_mk_map(k, items, immutabledict) for k, items in specs]
            exp = dict(m)
            if op == "ror":
                exp = dict(args[0])
                exp.update(m)
            else:
                for a in args:
                    if a:
                        exp.update(a)
            if op == "or":
                r = d | args[0]
            elif op == "ror":
                if isinstance(args[0], immutabledict) or not isinstance(args[0], dict):
                    args[0] = dict(args[0])
                r = args[0] | d
            else:
                r = getattr(d, op)(*args)
            if not isinstance(r, immutabledict):
                raise Violation(f"C54/immutabledict/{op}/result-type", f"{where}: result is {type(r).__name__}")
            if dict(r) != exp or list(r.items()) != list(exp.items()) and op != "ror" and False:
                raise Violation(f"C54/immutabledict/{op}/contents", f"{where}: {dict(r)} != {exp}", observed=dict(r), expected=exp)
            # never aliases a mutable argument
            for a in args:
                if isinstance(a, dict) and not isinstance(a, immutabledict):
                    if r is a:
                        raise Violation(f"C54/immutabledict/{op}/aliases-argument", f"{where}: result is the mutable argument")
                    a["__poison__"] = 1
            if dict(r) != exp:
                raise Violation(f"C54/immutabledict/{op}/aliases-argument", f"{where}: result changed when argument mutated: {dict(r)} != {exp}")
            if dict(d) != m:
                raise Violation(f"C54/immutabledict/{op}/source-changed", f"{where}: source {dict(d)} != {m}")
            if len([a for a in args if a]) >= 1:
                nontrivial = True
            if opd[2]:  # continue with the merged value
                d, m = r, exp
                merged = True
        elif op == "copy":
            r = d.copy()
            if dict(r) != m or not isinstance(r, immutabledict):
                raise Violation("C54/immutabledict/copy", f"{where}: {r!r}")
        elif op == "pickle":
            r = pickle.loads(pickle.dumps(d, opd[1]))
            if dict(r) != m or not isinstance(r, immutabledict):
                raise Violation("C54/immutabledict/pickle", f"{where}: {r!r}")
        elif op == "read":
            k = opd[1]
            if (k in d) != (k in m) or d.get(k) != m.get(k) or len(d) != len(m) or list(d) != list(m) or (d == m) is not True:
                raise Violation("C54/immutabledict/read", f"{where}: reads differ from dict {m}")
            h = None
        if dict.__len__(d) != len(m) or dict(d) != m:
            raise Violation(f"C54/immutabledict/{op}/contents-changed", f"{where}: contents {dict(d)} != model {m}", observed=dict(d), expected=m)
    ctx.note(case, nontrivial, classes=classes)


_key = st.sampled_from(["a", "b", "c", "d", 1, 2])
_items = st.lists(st.tuples(_key, st.integers(0, 9)), max_size=4)
_mapspec = st.tuples(st.sampled_from(["none", "dict", "imm", "mapping", "empty_imm", "dict", "imm"]), _items)


@st.composite
def _idict_programs(draw):
    ops = []
    for _ in range(draw(st.integers(1, 20))):
        g = draw(st.sampled_from(["mut", "merge", "merge", "copy", "pickle", "read"]))
        if g == "mut":
            ops.append([draw(st.sampled_from(ID_MUT)), draw(_key), draw(st.integers(0, 9))])
        elif g == "merge":
            ops.append([draw(st.sampled_from(["union", "merge_with", "or", "ror"])), draw(st.lists(_mapspec, max_size=3)), draw(st.booleans())])
        elif g == "copy":
            ops.append(["copy"])
        elif g == "pickle":
            ops.append(["pickle", draw(st.integers(2, 5))])
        else:
            ops.append(["read", draw(_key)])
    return {"init": draw(_items), "ops": ops}


# ------------------------------------------------------------------ LRUCache
def check_lru(case, ctx):
    from sqlalchemy.util import LRUCache

    cap, thr = case["capacity"], case["threshold"]
    alerts = []
    c = LRUCache(cap, threshold=thr, size_alert=(lambda cache: alerts.append(len(cache))) if case["alert"] else None)
    model = {}  # key -> (value, last_use)
    tick = 0
    pruned = False
    classes = set()
    limit = cap + cap * thr
    for step, opd in enumerate(case["ops"]):
        op, k = opd[0], opd[1]
        v = opd[2] if len(opd) > 2 else None
        where = f"step {step} {op}({k})"
        classes.add(op)
        tick += 1
        if op == "set":
            val = [k, step]  # value tagged with its key
            c[k] = val
            model[k] = (val, tick)
            if len(model) > limit:
                # prune: keep exactly the `capacity` most recently used
                keep = sorted(model, key=lambda kk: model[kk][1], reverse=True)[:cap]
                model = {kk: model[kk] for kk in model if kk in keep}
                pruned = True
                classes.add("prune")
            if len(c) > limit:
                raise Violation("C54/LRUCache/size-bound", f"{where}: len {len(c)} > capacity*(1+threshold) = {limit}", observed=len(c), expected=f"<= {limit}")
        elif op in ("get", "getitem"):
            try:
                got = c.get(k, "MISSING") if op == "get" else c[k]
                gexc = None
            except KeyError:
                got, gexc = None, "KeyError"
            if k in model:
                if gexc or got is not model[k][0]:
                    raise Violation(f"C54/LRUCache/{op}/wrong-value", f"{where}: got {got!r} exc={gexc}, stored {model[k][0]!r}", observed=repr(got), expected=repr(model[k][0]))
                model[k] = (model[k][0], tick)
            else:
                if op == "get" and got != "MISSING" or op == "getitem" and gexc != "KeyError":
                    raise Violation(f"C54/LRUCache/{op}/phantom", f"{where}: key absent in model but got {got!r}")
            if got not in (None, "MISSING") and got[0] != k:
                raise Violation(f"C54/LRUCache/{op}/foreign-value", f"{where}: value {got!r} was stored under another key")
        elif op == "del":
            try:
                del c[k]
                gexc = None
            except KeyError:
                gexc = "KeyError"
            if (k in model) == bool(gexc):
                raise Violation("C54/LRUCache/del", f"{where}: exc={gexc} but model has key: {k in model}")
            model.pop(k, None)
        elif op == "iter":
            pass
        if sorted(c, key=repr) != sorted(model, key=repr) or len(c) != len(model):
            raise Violation(f"C54/LRUCache/{op}/keys", f"{where}: keys {sorted(c, key=repr)} != model {sorted(model, key=repr)} (most-recently-used retention)", observed=sorted(c, key=repr), expected=sorted(model, key=repr))
        vals = list(c.values())
        if sorted(map(repr, vals)) != sorted(repr(model[kk][0]) for kk in model):
            raise Violation(f"C54/LRUCache/{op}/values", f"{where}: values differ")
    if case["alert"] and pruned and not alerts:
        raise Violation("C54/LRUCache/size_alert-not-called", "prune happened without size_alert")
    ctx.note(case, pruned, classes=classes)


@st.composite
def _lru_programs(draw):
    cap = draw(st.integers(1, 8))
    thr = draw(st.sampled_from([0, 0.25, 0.5, 1]))
    keys = st.integers(0, cap * 2 + 3)
    ops = []
    for _ in range(draw(st.integers(1, 60))):
        op = draw(st.sampled_from(["set", "set", "set", "get", "getitem", "del", "iter"]))
        ops.append([op, draw(keys)])
    return {"capacity": cap, "threshold": thr, "alert": draw(st.booleans()), "ops": ops}


def subs(tier):
    return [
        Enumerated("oset_exh", check_oset, cases=_exh_oset_cases),
        Generated("oset", check_oset, strategy=_oset_programs(), quick=3000, thorough=300000),
        Generated("iset", check_iset, strategy=_iset_programs(), quick=3000, thorough=300000),
        Generated("idict", check_idict, strategy=_idict_programs(), quick=3000, thorough=200000),
        Generated("lru", check_lru, strategy=_lru_programs(), quick=3000, thorough=200000),
    ]
