#!/venv/bin/python
"""Sensitivity helper: apply a textual mutation to a scratch copy of /repo/lib and run checks.

usage: tools/mut.py <PROP[,PROP..]> <file-relative-to-lib/sqlalchemy> <old> <new> [--tier quick] [--count N]
       tools/mut.py <PROP[,PROP..]> --patch <diff-file>
The scratch copy lives under /dev/shm/vf_mut_<pid> and is removed afterwards.
exit 0 = mutant killed by every listed check (VIOLATION printed), 1 = survived somewhere.
"""
import os, shutil, subprocess, sys, tempfile

def main():
    a = sys.argv[1:]
    props = a[0].split(",")
    tier = "quick"
    if "--tier" in a:
        i = a.index("--tier"); tier = a[i+1]; del a[i:i+2]
    d = tempfile.mkdtemp(prefix="vf_mut_", dir="/dev/shm")
    try:
        shutil.copytree("/repo/lib", os.path.join(d, "lib"), ignore=shutil.ignore_patterns("__pycache__"))
        if a[1] == "--patch":
            subprocess.check_call(["patch", "-p1", "-d", d, "-i", os.path.abspath(a[2])], stdout=subprocess.DEVNULL)
        else:
            rel, old, new = a[1], a[2], a[3]
            p = os.path.join(d, "lib", "sqlalchemy", rel)
            s = open(p).read()
            n = s.count(old)
            if n != 1:
                print(f"mutation site matches {n} times, need exactly 1"); return 2
            open(p, "w").write(s.replace(old, new))
        env = dict(os.environ, VERIF_REPO=d)
        ok = True
        for prop in props:
            r = subprocess.run(["/verif/check", prop, "--tier", tier, "--no-evidence"], env=env, capture_output=True, text=True)
            lines = [l for l in r.stdout.splitlines() if l.startswith(("VIOLATION", "HARNESS", prop)) or "/" in l[:60] and ":" in l[:80]]
            killed = r.returncode == 1 and "VIOLATION" in r.stdout
            print(f"[{prop}] rc={r.returncode} {'KILLED' if killed else 'SURVIVED'}")
            for l in r.stdout.splitlines()[-6:]:
                print("   ", l[:300])
            if r.returncode == 2:
                print(r.stderr[-1500:])
            ok &= killed
        return 0 if ok else 1
    finally:
        shutil.rmtree(d, ignore_errors=True)

sys.exit(main())
