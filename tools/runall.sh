#!/bin/sh
# run every registered quick check once (writes evidence), print one summary line each
cd /verif
for p in $(python3 -c "import json; print(' '.join(c['property_id'] for c in json.load(open('MANIFEST.json'))['checks']))"); do
  if [ -n "$1" ] && ! echo " $* " | grep -q " $p "; then continue; fi
  out=$(./check $p --tier quick 2>&1); rc=$?
  echo "rc=$rc $(echo "$out" | grep "^$p quick" | tail -1)"
  echo "$out" | grep "^VIOLATION\|^HARNESS" | head -3
done
