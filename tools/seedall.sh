#!/bin/sh
# regression over every kept seeded change: each must still be KILLED by the quick check of its property
# usage: tools/seedall.sh [-j N] [IDs...]
cd "$(dirname "$0")/.."
J=3
if [ "$1" = "-j" ]; then J=$2; shift; shift; fi
ids="$*"
[ -z "$ids" ] && ids=$(ls seeded | sort)
echo $ids | tr ' ' '\n' | xargs -P $J -I{} sh -c 'd={}; p=$(echo $d | sed "s/[bc]$//"); out=$(tools/seedcheck.py $d --checks $p --shards 5 2>&1 | tail -1 | cut -c1-140); echo "$d $out"'
