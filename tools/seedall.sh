#!/bin/sh
# regression over every kept seeded change: each must still be KILLED by the quick check of its property
cd "$(dirname "$0")/.."
for d in $(ls seeded | sort); do
  if [ -n "$1" ] && ! echo " $* " | grep -q " $d "; then continue; fi
  p=$(echo $d | sed 's/b$//')
  out=$(tools/seedcheck.py $d --checks $p 2>&1 | tail -1 | cut -c1-160)
  echo "$d $out"
done
