#!/venv/bin/python
"""Run a batch of textual mutants (tools/mut.py) in parallel and print one line per mutant.

usage: tools/mutbatch.py <batch.json> [-j N] [--only C43,C20]
batch.json: [{"id": "C43-or-null", "props": "C43", "file": "orm/evaluator.py", "old": "...", "new": "..."}, ...]
"""
import json, os, subprocess, sys
from concurrent.futures import ThreadPoolExecutor

def run(m):
    env = dict(os.environ, VERIF_SHARDS=os.environ.get("VERIF_SHARDS", "4"))
    r = subprocess.run(["/verif/tools/mut.py", m["props"], m["file"], m["old"], m["new"]], env=env, capture_output=True, text=True)
    head = [l for l in r.stdout.splitlines() if l.startswith("[")]
    sig = [l.strip()[:200] for l in r.stdout.splitlines() if "/" in l[:40] and ":" in l[:90] and not l.startswith("[")][:1]
    return m["id"], r.returncode, head, sig, r.stdout[-400:] if r.returncode == 2 else ""

def main():
    a = sys.argv[1:]
    batch = json.load(open(a[0]))
    j = int(a[a.index("-j") + 1]) if "-j" in a else 3
    if "--only" in a:
        only = a[a.index("--only") + 1].split(",")
        batch = [m for m in batch if m["props"] in only or m["id"] in only]
    with ThreadPoolExecutor(j) as ex:
        for mid, rc, head, sig, err in ex.map(run, batch):
            print(mid, "rc=%d" % rc, " ".join(head), sig, err, flush=True)

main()
