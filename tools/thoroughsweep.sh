#!/bin/sh
# run the thorough tier of the given checks (default: all registered) without writing evidence; one summary line each + problems
cd "$(dirname "$0")/.."
ps="$*"
[ -z "$ps" ] && ps=$(python3 -c "import json; print(' '.join(c['property_id'] for c in json.load(open('MANIFEST.json'))['checks']))")
for p in $ps; do
  out=$(./check $p --tier thorough --no-evidence 2>&1); rc=$?
  echo "rc=$rc $(echo "$out" | grep "^$p thorough" | tail -1)"
  if [ $rc -ne 0 ]; then echo "$out" | grep -v "^KNOWN" | grep -B2 "^VIOLATION\|^HARNESS" | cut -c1-700; fi
done
