#!/bin/sh
# run every registered quick check at the given seeds without writing evidence; print only problems + one line per check
cd "$(dirname "$0")/.."
for s in "$@"; do
  for p in $(python3 -c "import json; print(' '.join(c['property_id'] for c in json.load(open('MANIFEST.json'))['checks']))"); do
    out=$(VERIF_SEED=$s ./check $p --tier quick --no-evidence 2>&1); rc=$?
    echo "seed=$s rc=$rc $(echo "$out" | grep "^$p quick" | tail -1)"
    if [ $rc -ne 0 ]; then echo "$out" | grep -v "^KNOWN" | grep -B2 "^VIOLATION\|^HARNESS" | cut -c1-600; fi
  done
done
