#!/venv/bin/python
"""Verify a seeded breaking change and run checks against it.

usage: tools/seedcheck.py <PID> [--checks C01,C05] [--tier quick] [--wt /tmp/wt_PID] [--seed /tmp/seed_PID]
 1. patch.diff must apply to a clean export of /repo HEAD (done in a scratch copy under /dev/shm, removed afterwards)
 2. demo.py must exit 1 against the patched tree and 0 against /repo
 3. each listed check is run with VERIF_REPO=<patched copy>; KILLED = exit 1 with a VIOLATION line
Results are written to /verif/seeded/<PID>/ (patch.diff, demo.py, meta.json).
"""
import json, os, shutil, subprocess, sys, tempfile, time

def sh(cmd, **kw):
    return subprocess.run(cmd, shell=isinstance(cmd, str), capture_output=True, text=True, **kw)

def main():
    a = sys.argv[1:]
    pid = a[0]
    def opt(name, default):
        return a[a.index(name) + 1] if name in a else default
    checks = opt("--checks", pid).split(",")
    tier = opt("--tier", "quick")
    seed_dir = opt("--seed", f"/tmp/seed_{pid}")
    shards = opt("--shards", "8")
    out_dir = f"/verif/seeded/{pid}"
    os.makedirs(out_dir, exist_ok=True)
    for f in ("patch.diff", "demo.py", "meta.json"):
        if os.path.exists(os.path.join(seed_dir, f)) and os.path.abspath(seed_dir) != os.path.abspath(out_dir):
            shutil.copy(os.path.join(seed_dir, f), os.path.join(out_dir, f if f != "meta.json" else "author_meta.json"))
    d = tempfile.mkdtemp(prefix=f"vf_seed_{pid}_", dir="/dev/shm")
    res = {"property": pid, "verified_at": time.strftime("%Y-%m-%dT%H:%M:%SZ", time.gmtime())}
    try:
        sh(f"git -C /repo archive HEAD lib | tar -x -C {d}")
        env = dict(os.environ)
        # baseline: the demo on the clean export (pure-Python modules, as in the seeding agent's worktree)
        r0 = sh(["/venv/bin/python", f"{out_dir}/demo.py"], env=dict(env, PYTHONPATH=f"{d}/lib"), timeout=900)
        if "--with-so" in a or pid.startswith("C55"):
            # C55 compares the prebuilt compiled extensions with the (patched) pure-Python modules: keep the .so files beside them
            sh(f"cd /repo/lib && find . -name '*.so' -exec cp --parents {{}} {d}/lib/ \\;")
        r = sh(f"cd {d} && git init -q . && git apply --whitespace=nowarn {out_dir}/patch.diff")
        res["patch_applies_to_head"] = r.returncode == 0
        if r.returncode != 0:
            print("patch does not apply:", r.stderr[:500])
        r1 = sh(["/venv/bin/python", f"{out_dir}/demo.py"], env=dict(env, PYTHONPATH=f"{d}/lib", DISABLE_SQLALCHEMY_CEXT_RUNTIME="1"), timeout=900)
        res["demo_exit_with_patch"] = r1.returncode
        res["demo_exit_without_patch"] = r0.returncode
        res["demo_output_with_patch"] = (r1.stdout + r1.stderr)[-600:]
        print(f"demo: with patch rc={r1.returncode}, without rc={r0.returncode}")
        res["checks"] = {}
        for c in checks:
            t0 = time.time()
            r = sh(["/verif/check", c, "--tier", tier, "--no-evidence"], env=dict(env, VERIF_REPO=d, VERIF_SHARDS=shards), timeout=3000)
            viol = [l for l in r.stdout.splitlines() if l.startswith("VIOLATION")]
            sigs = [l[:300] for l in r.stdout.splitlines() if l.startswith(c + "/") or l.startswith("crash/")]
            killed = r.returncode == 1 and bool(viol)
            res["checks"][c] = {"tier": tier, "exit": r.returncode, "killed": killed, "signatures": sigs[:4], "wall_s": round(time.time() - t0, 1)}
            print(f"[{c}] rc={r.returncode} {'KILLED' if killed else 'SURVIVED'} {sigs[:2]}")
            if r.returncode == 2:
                print(r.stdout[-1500:], r.stderr[-1500:])
        json.dump(res, open(os.path.join(out_dir, "verification.json"), "w"), indent=1)
    finally:
        shutil.rmtree(d, ignore_errors=True)

main()
