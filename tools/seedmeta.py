#!/usr/bin/env python3
"""(re)write seeded/<ID>/meta.json from author_meta.json + verification.json (+ optional history note: ID=note args)"""
import json, os, sys
notes = dict(a.split("=", 1) for a in sys.argv[1:] if "=" in a)
ids = [a for a in sys.argv[1:] if "=" not in a] or sorted(os.listdir("/verif/seeded"))
for pid in ids:
    d = f"/verif/seeded/{pid}"
    if not os.path.exists(f"{d}/verification.json"):
        continue
    am = json.load(open(f"{d}/author_meta.json")) if os.path.exists(f"{d}/author_meta.json") else {}
    v = json.load(open(f"{d}/verification.json"))
    old = json.load(open(f"{d}/meta.json")) if os.path.exists(f"{d}/meta.json") else {}
    meta = {"property": pid, "breaks": am.get("summary") or am.get("breaks"), "needs_to_manifest": am.get("needs_to_manifest"), "files_changed": am.get("files_changed"),
            "author_tests_run": am.get("tests_run") or am.get("author_tests_run"),
            "what_i_ran": [f"tools/seedcheck.py {pid}: git apply of patch.diff onto an export of /repo HEAD under /dev/shm; demo.py against patched and unpatched lib; "
                           f"./check <ID> --tier quick with VERIF_REPO=<patched copy> for {list(v.get('checks', {}))}"],
            "patch_applies_to_head": v.get("patch_applies_to_head"), "demo_exit_with_patch": v.get("demo_exit_with_patch"),
            "demo_exit_without_patch": v.get("demo_exit_without_patch"), "checks": v.get("checks")}
    h = notes.get(pid) or old.get("history")
    if h:
        meta["history"] = h
    json.dump(meta, open(f"{d}/meta.json", "w"), indent=1)
    print(pid, {k: x["killed"] for k, x in v["checks"].items()})
