#!/bin/sh
# run the quick tier to its full case count (explicit large budget) for the given seeds and checks: usage fullseeds.sh "2 3" C01 C03 ...
cd "$(dirname "$0")/.."
seeds="$1"; shift
for s in $seeds; do
  for p in "$@"; do
    out=$(VERIF_SEED=$s VERIF_BUDGET_S=6000 ./check $p --tier quick --no-evidence 2>&1); rc=$?
    echo "seed=$s rc=$rc $(echo "$out" | grep "^$p quick" | tail -1)"
    if [ $rc -ne 0 ]; then echo "$out" | grep -v "^KNOWN" | grep -B2 "^VIOLATION\|^HARNESS" | cut -c1-700; fi
  done
done
