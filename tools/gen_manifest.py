#!/usr/bin/env python3
"""Regenerate /verif/MANIFEST.json from vf/registry.py and the check modules present."""
import json, os, sys
HERE = os.path.dirname(os.path.dirname(os.path.abspath(__file__)))
sys.path.insert(0, HERE)
from vf.registry import NOT_YET, NOT_APPLICABLE, ENABLED  # noqa

props = [json.loads(l) for l in open(os.path.join(HERE, "properties.jsonl"))]
checks, na = [], []
for p in props:
    pid = p["id"]
    mp = os.path.join(HERE, "checks", pid.lower() + ".meta.json")
    r = json.load(open(mp)) if os.path.exists(mp) else None
    if r and pid in ENABLED and pid not in NOT_APPLICABLE and os.path.exists(os.path.join(HERE, "checks", pid.lower() + ".py")):
        checks.append({
            "property_id": pid,
            "quick_cmd": f"./check {pid} --tier quick",
            "thorough_cmd": f"./check {pid} --tier thorough",
            "evidence_file": f"/verif/evidence/{pid}.json",
            "replay_cmd_template": f"./check {pid} --replay {{path}}",
            "engine": "vf",
            "level_claimed": {"category": r["category"], "text": r["text"], "design_ref": r.get("design_ref", "DESIGN.md 4/" + pid)},
            "level_note": r["note"],
            "technique": r["technique"],
        })
    else:
        na.append({"property_id": pid, "reason": NOT_APPLICABLE.get(pid, NOT_YET)})
m = {
    "version": 1,
    "setup_cmd": "/venv/bin/python -c 'import hypothesis' 2>/dev/null || /venv/bin/pip install --no-index --find-links /opt/veriftools/wheels hypothesis",
    "hooks": {
        "guard": "SQLALCHEMY_VERIF_HOOKS",
        "enable": "no source hooks exist: checks observe through public events, a recording/fault-injecting DBAPI, sys.settrace and harness-side monkey-patching; checks import /repo/lib directly (pure-Python *_cy modules via vf/purehook.py)",
        "baseline_off_cmd": "cd /repo && /venv/bin/python -m pytest -ra -q -p no:cacheprovider --timeout=900 --continue-on-collection-errors",
        "source_commits": [],
        "add_only": True,
    },
    "engines": [
        {"name": "vf", "path": "/verif/vf", "serves_properties": [c["property_id"] for c in checks],
         "kind_free_text": "Hypothesis-driven property-based testing framework: sharded runner (vf/runner.py), programs-as-data generators, reference models, replay files, known-findings matcher, pure-Python import hook (vf/purehook.py)"},
        {"name": "E-SCHED", "path": "/verif/vf/sched.py", "serves_properties": ["C25", "C28", "C52"],
         "kind_free_text": "deterministic scheduler for real threads: the schedule (pre-emption list + picks) is generated data; pre-emption at traced source lines and at every shim Lock/RLock/Condition operation; virtual clock"},
        {"name": "E-REC", "path": "/verif/vf/fakedb.py", "serves_properties": ["C04", "C05", "C12", "C16", "C23", "C24", "C25", "C26", "C27"],
         "kind_free_text": "recording + fault-injecting DBAPI with connection ledger and scripted fault plans; recording engines for real dialect+driver pairs (no server needed)"},
        {"name": "E-CANCEL", "path": "/verif/checks/c29.py", "serves_properties": ["C29"],
         "kind_free_text": "awaitable wrapper counting task suspensions and cancelling the task exactly at its k-th await (fault enumeration over await points)"},
        {"name": "E-DIFF", "path": "/verif/checks/_c55_interp.py", "serves_properties": ["C55"],
         "kind_free_text": "trace differential between the pure-Python working tree and a persistent child interpreter running the prebuilt compiled extensions"},
    ],
    "checks": checks,
    "notes": "Single entry point ./check <ID> [--tier quick|thorough] [--replay FILE]; VERIF_SEED seeds every Hypothesis run; exit 2 = harness error (never a violation). "
             "VERIF_REPO overrides the tree under test (used only for mutation/sensitivity runs).",
    "not_applicable": na,
}
json.dump(m, open(os.path.join(HERE, "MANIFEST.json"), "w"), indent=1)
print(f"registered {len(checks)} checks, {len(na)} not claimed")
