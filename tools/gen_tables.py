#!/usr/bin/env python3
"""Regenerate the machine-written tables of DESIGN.md (between <!-- BEGIN x --> / <!-- END x --> markers):
findings (from known_findings.txt), seeded (from seeded/*/meta.json), status (from MANIFEST.json + evidence/)."""
import glob, json, os, re
HERE = os.path.dirname(os.path.dirname(os.path.abspath(__file__)))

def findings():
    rows_fixed, rows_known = [], []
    for line in open(os.path.join(HERE, "known_findings.txt"), encoding="utf8"):
        line = line.strip()
        if line.startswith("known:"):
            head, _, what = line[6:].partition(" -- ")
            kv = dict(t.split("=", 1) for t in head.split() if "=" in t)
            rows_known.append((kv["property"], kv["signature"], what.strip()))
        elif line.startswith("fixed:"):
            toks = line[6:].split()
            prop = toks[0].split("=", 1)[1]
            commit = toks[1]
            rest = " ".join(t for t in toks[2:] if not t.startswith(("signature=", "replay=")))
            rows_fixed.append((prop, commit, rest))
    out = ["**Repaired in /repo (one `fix:` commit each; the pinned replay must pass, nothing is suppressed):**", "", "| Property | Commit | What failed |", "|---|---|---|"]
    for p, c, w in sorted(rows_fixed):
        out.append(f"| {p} | `{c}` | {w.replace('|', '/')} |")
    out += ["", f"**Recorded as known findings ({len(rows_known)}; excluded from generation by construction, one pinned replay each prints `KNOWN-FINDING`):**", "", "| Property | Signature | What fails |", "|---|---|---|"]
    for p, s, w in sorted(rows_known):
        out.append(f"| {p} | `{s}` | {w.replace('|', '/')[:420]} |")
    return "\n".join(out)

def seeded():
    out = ["| Seed | Breaks | Needs to manifest | Caught by (signature) | History |", "|---|---|---|---|---|"]
    for d in sorted(glob.glob(os.path.join(HERE, "seeded", "*"))):
        mp = os.path.join(d, "meta.json")
        if not os.path.exists(mp):
            continue
        m = json.load(open(mp))
        caught = []
        for c, r in (m.get("checks") or {}).items():
            caught.append(f"{c}: {'KILLED' if r['killed'] else 'SURVIVED'}" + (f" (`{r['signatures'][0].split(':')[0][:90]}`)" if r.get("signatures") else ""))
        out.append(f"| {os.path.basename(d)} | {str(m.get('breaks'))[:260].replace('|','/')} | {str(m.get('needs_to_manifest'))[:300].replace('|','/')} | {'; '.join(caught)} | {m.get('history','caught at first run')[:260]} |")
    return "\n".join(out)

def status():
    m = json.load(open(os.path.join(HERE, "MANIFEST.json")))
    out = ["| ID | Level | Technique | quick: evaluations / distinct non-trivial / wall s |", "|---|---|---|---|"]
    for c in m["checks"]:
        ev = os.path.join(HERE, "evidence", c["property_id"] + ".json")
        e = json.load(open(ev)) if os.path.exists(ev) else None
        q = f"{e['coverage']['evaluations']} / {e['coverage']['distinct_nontrivial']} / {e['wall_s']}" if e else "-"
        out.append(f"| {c['property_id']} | {c['level_claimed']['category']} | {c.get('technique','')} | {q} |")
    for n in m.get("not_applicable", []):
        out.append(f"| {n['property_id']} | not claimed | {n['reason'][:160]} | - |")
    return "\n".join(out)

p = os.path.join(HERE, "DESIGN.md")
s = open(p, encoding="utf8").read()
for name, fn in (("findings", findings), ("seeded", seeded), ("status", status)):
    b, e = f"<!-- BEGIN {name} -->", f"<!-- END {name} -->"
    if b in s and e in s:
        s = s[: s.index(b) + len(b)] + "\n" + fn() + "\n" + s[s.index(e):]
open(p, "w", encoding="utf8").write(s)
print("tables regenerated")
